#!/usr/bin/env python3
"""Runs every claimed check (default: quick) and prints a summary table."""
import json
import os
import subprocess
import sys
import time

ROOT = os.path.dirname(os.path.dirname(os.path.abspath(__file__)))
tier = sys.argv[1] if len(sys.argv) > 1 else "quick"
only = sys.argv[2:]
m = json.load(open(os.path.join(ROOT, "MANIFEST.json")))
rows = []
for c in m["checks"]:
    pid = c["property_id"]
    if only and pid not in only:
        continue
    t0 = time.time()
    p = subprocess.run(c["quick_cmd" if tier == "quick" else "thorough_cmd"], shell=True, cwd=ROOT,
                       capture_output=True, text=True)
    tail = [l for l in p.stdout.splitlines() if l.startswith(("VIOLATION", "KNOWN-FINDING"))]
    rows.append((pid, p.returncode, round(time.time() - t0), tail))
    print(pid, "rc=%d" % p.returncode, "%ds" % (time.time() - t0), *[t[:160] for t in tail], sep="  ", flush=True)
    if p.returncode not in (0,):
        print(p.stdout[-3000:])
sys.exit(0 if all(r[1] == 0 for r in rows) else 1)
