#!/usr/bin/env python3
"""MANIFEST.setup_cmd: offline sanity of the framework (parses every TLA+ module with SANY).
Nothing that depends on /repo is built here: every check rebuilds its harness from the current tree."""
import glob
import os
import subprocess
import sys

ROOT = os.path.dirname(os.path.dirname(os.path.abspath(__file__)))
CP = "/opt/veriftools/tla/tla2tools.jar:/opt/veriftools/tla/CommunityModules-deps.jar"
bad = 0
for tla in sorted(glob.glob(os.path.join(ROOT, "spec", "*.tla"))):
    p = subprocess.run(["java", "-cp", CP, "tla2sany.SANY", tla], capture_output=True, text=True,
                       cwd=os.path.join(ROOT, "spec"))
    ok = p.returncode == 0 and "Semantic errors" not in p.stdout and "*** Errors" not in p.stdout
    print(("ok   " if ok else "FAIL ") + os.path.basename(tla))
    if not ok:
        print(p.stdout[-2000:])
        bad += 1
for d in ("evidence", ".build", ".work", "replays"):
    os.makedirs(os.path.join(ROOT, d), exist_ok=True)
sys.exit(1 if bad else 0)
