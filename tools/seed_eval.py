#!/usr/bin/env python3
"""Confirms a seeded change produced by a sub-agent and evaluates the checks against it.
  seed_eval.py confirm <name> <worktree> <outdir> [demo compile flags...]
      re-runs the repository's tests in the scratch worktree with the change applied, and the
      demonstration with and without it; copies patch/demo/README to /verif/seeded/<name>/ and writes meta.json
  seed_eval.py run <name> <check id> [more check ids]
      applies seeded/<name>/patch.diff to /repo, runs the quick checks, undoes it, records the verdicts"""
import json
import os
import shutil
import subprocess
import sys
import time

ROOT = os.path.dirname(os.path.dirname(os.path.abspath(__file__)))


def sh(cmd, cwd=None, timeout=3600):
    p = subprocess.run(cmd, shell=True, cwd=cwd, capture_output=True, text=True, timeout=timeout, errors="replace")
    return p.returncode, p.stdout + p.stderr


def confirm(name, wt, out, flags):
    dest = os.path.join(ROOT, "seeded", name)
    os.makedirs(dest, exist_ok=True)
    patch = os.path.join(out, "patch.diff")
    rc, diff = sh("git diff", cwd=wt)
    if not diff.strip():
        print("worktree has no change applied")
        return 1
    with open(patch, "w") as f:
        f.write(diff)
    rc, o = sh("cmake -G Ninja -B build -S . >/dev/null && cmake --build build 2>&1 | tail -2 && ctest --test-dir build -j8 2>&1 | grep -E 'tests passed|tests failed'", cwd=wt)
    tests_pass = "100% tests passed" in o
    demo = os.path.join(out, "demo.cpp")
    fl = " ".join(flags)
    rc1, o1 = sh(f"g++ -std=c++17 {fl} -I{wt}/src {demo} -o {out}/demo_mut && timeout 120 {out}/demo_mut", cwd=out)
    # (no git stash: the stash is shared between worktrees)
    sh("git checkout -- src", cwd=wt)
    rc0, o0 = sh(f"g++ -std=c++17 {fl} -I{wt}/src {demo} -o {out}/demo_orig && timeout 60 {out}/demo_orig", cwd=out)
    sh(f"git apply {patch}", cwd=wt)
    ok = tests_pass and rc1 != 0 and rc0 == 0
    print(f"tests_pass={tests_pass} demo_with_change_rc={rc1} demo_without_rc={rc0} => {'CONFIRMED' if ok else 'NOT CONFIRMED'}")
    if not ok:
        print(o[-500:], o1[-500:], o0[-500:])
        return 1
    shutil.copy(patch, os.path.join(dest, "patch.diff"))
    shutil.copy(demo, os.path.join(dest, "demo.cpp"))
    if os.path.exists(os.path.join(out, "README.txt")):
        shutil.copy(os.path.join(out, "README.txt"), os.path.join(dest, "README.txt"))
    meta = {"name": name, "property": name.split("-")[0], "demo_flags": fl,
            "confirmed": {"repository_tests_pass_with_change": tests_pass, "demo_rc_with_change": rc1,
                          "demo_rc_without_change": rc0,
                          "how": "tools/seed_eval.py confirm: cmake+ctest in the scratch worktree with the change applied; "
                                 "demo compiled and run with the change and after reverting it (git checkout -- src, then git apply to restore)"},
            "needs": "see README.txt", "checks": {}}
    mp = os.path.join(dest, "meta.json")
    if os.path.exists(mp):
        old = json.load(open(mp))
        meta["checks"] = old.get("checks", {})
        meta["needs"] = old.get("needs", meta["needs"])
    json.dump(meta, open(mp, "w"), indent=1)
    return 0


def run_isolated(name, checks):
    """Same as run(), on a scratch copy of /repo's working tree (src + test helpers) outside /repo and /verif,
    with private build cache, work directory, evidence and replays: usable while other checks run on /repo."""
    import shutil
    import tempfile
    dest = os.path.join(ROOT, "seeded", name)
    patch = os.path.join(dest, "patch.diff")
    scratch = tempfile.mkdtemp(prefix=f"seed-{name}-", dir="/tmp")
    try:
        sh(f"mkdir -p {scratch}/repo/extras/tests && cp -r /repo/src {scratch}/repo/src && "
           f"cp -r /repo/extras/tests/Helpers {scratch}/repo/extras/tests/Helpers && cd {scratch}/repo && git init -q . && "
           f"git add -A >/dev/null && git -c user.email=a@b -c user.name=x commit -qm base")
        rc, o = sh(f"git -C {scratch}/repo apply {patch}")
        if rc != 0:
            print("patch does not apply:", o)
            return 1
        meta = json.load(open(os.path.join(dest, "meta.json")))
        env = (f"VERIF_REPO={scratch}/repo VERIF_BUILD={scratch}/build VERIF_WORK={scratch}/work "
               f"VERIF_EVIDENCE={scratch}/evidence VERIF_REPLAYS={scratch}/replays")
        for c in checks:
            t0 = time.time()
            rc, o = sh(f"{env} python3 tools/check.py {c} quick", cwd=ROOT, timeout=5400)
            viol = [l for l in o.splitlines() if l.startswith("VIOLATION")]
            first = [l for l in o.splitlines() if "violation:" in l][:1]
            verdict = "caught" if rc == 1 and viol else ("missed" if rc == 0 else f"error rc={rc}")
            meta["checks"][c] = {"verdict": verdict, "wall_s": round(time.time() - t0), "first": (first[0][:400] if first else ""),
                                 "how": "isolated copy of the working tree (VERIF_REPO)"}
            print(c, verdict, f"{time.time() - t0:.0f}s", first[0][:300] if first else "")
        json.dump(meta, open(os.path.join(dest, "meta.json"), "w"), indent=1)
    finally:
        shutil.rmtree(scratch, ignore_errors=True)
    return 0


def run(name, checks):
    dest = os.path.join(ROOT, "seeded", name)
    patch = os.path.join(dest, "patch.diff")
    rc, o = sh(f"git -C /repo status --porcelain --untracked-files=no")
    if o.strip():
        print("/repo is not clean:", o)
        return 1
    rc, o = sh(f"git -C /repo apply {patch}")
    if rc != 0:
        print("patch does not apply:", o)
        return 1
    meta = json.load(open(os.path.join(dest, "meta.json")))
    try:
        for c in checks:
            t0 = time.time()
            rc, o = sh(f"python3 tools/check.py {c} quick", cwd=ROOT, timeout=5400)
            viol = [l for l in o.splitlines() if l.startswith("VIOLATION")]
            first = [l for l in o.splitlines() if "violation:" in l][:1]
            verdict = "caught" if rc == 1 and viol else ("missed" if rc == 0 else f"error rc={rc}")
            meta["checks"][c] = {"verdict": verdict, "wall_s": round(time.time() - t0), "first": (first[0][:400] if first else "")}
            print(c, verdict, f"{time.time() - t0:.0f}s", first[0][:300] if first else "")
    finally:
        sh("git -C /repo checkout -- .")
    json.dump(meta, open(os.path.join(dest, "meta.json"), "w"), indent=1)
    return 0


if __name__ == "__main__":
    if sys.argv[1] == "confirm":
        sys.exit(confirm(sys.argv[2], sys.argv[3], sys.argv[4], sys.argv[5:]))
    if sys.argv[1] == "run-isolated":
        sys.exit(run_isolated(sys.argv[2], sys.argv[3:]))
    sys.exit(run(sys.argv[2], sys.argv[3:]))
