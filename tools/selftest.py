#!/usr/bin/env python3
"""Demonstrates that the trace specifications are BOUND to what the harnesses record (not part of the
gating commands): for each trace specification a short execution is recorded from the real library and
accepted; then ONE field of ONE event is corrupted (an integer moved by one, a boolean flipped, a string
changed), or one event is removed, and the specification must reject the trace.  A corruption that is
still accepted names a field the specification does not constrain; those fields are listed, so that an
unconstrained field is a decision written down in DESIGN.md and not an accident.

usage: tools/selftest.py [corruptions per trace (default 24)] [seed]
writes /verif/selftest/RESULT.json"""
import copy
import json
import os
import random
import re
import shutil
import sys
from concurrent.futures import ThreadPoolExecutor

sys.path.insert(0, os.path.dirname(os.path.abspath(__file__)))
import vlib  # noqa: E402
from checks import comparegen, doccommon as dc, numbersgen, numcommon, writergen as wg  # noqa: E402

# fields that are diagnostics for the human reader (never read by a specification)
INFORMATIONAL = {"kinds", "tag", "idx", "seed", "what", "text", "name", "lit"}


def validate(module, trace, wd, constants=None, timeout=600):
    os.makedirs(wd, exist_ok=True)
    cfg = os.path.join(wd, f"{module}.cfg")
    vlib.write_cfg(cfg, spec="TraceSpec", constants=constants or None, postcondition="Accepted")
    r = vlib.run_tlc(module, cfg, wd, workers=1, timeout=timeout, env={"TRACE": trace}, heap="3g")
    txt = vlib._tail(r.out_path, 200000)
    m = re.search(r'<<"TRACE-DEPTH", (-?\d+), (\d+)>>', txt)
    if not m:
        return None, vlib.tlc_error_excerpt(r)[:300]
    return int(m.group(1)) == int(m.group(2)), ""


def leaves(v, path=()):
    if isinstance(v, dict):
        for k, x in v.items():
            if k in INFORMATIONAL:
                continue
            yield from leaves(x, path + (k,))
    elif isinstance(v, list):
        for i, x in enumerate(v):
            yield from leaves(x, path + (i,))
    else:
        yield path, v


def set_at(v, path, new):
    for p in path[:-1]:
        v = v[p]
    v[path[-1]] = new


def corrupt_value(rng, x):
    if isinstance(x, bool):
        return not x
    if isinstance(x, int):
        return x + rng.choice([1, -1, 1000003]) if x != 0 else 1
    if isinstance(x, str):
        if x and x.lstrip("-").isdigit():
            return str(int(x) + 1)
        return x + "x" if x != "true" else "false"
    return "corrupted"


def record_doc(wd, events_flag):
    b = vlib.build("doc_record-g2x1s1", "doc_record.cpp", defines=dc.geom_defines("g2x1s1"))
    out = os.path.join(wd, "doc.ndjson")
    cmd = [b, out, "4242", "120", "2", "3"] + (["--events"] if events_flag else [])
    rc, txt = vlib.run_parallel([cmd])[0]
    assert rc == 0, txt[-500:]
    return out


def record_writer(wd):
    b = vlib.build("writer_record-def", "writer_record.cpp", std="gnu++17", extra=["-fext-numeric-literals", "-lquadmath"])
    docs = [d for d in wg.gen_docs(random.Random(7), 260) if d.get("cls") != "bulk"][200:260]
    dp = os.path.join(wd, "docs.ndjson")
    wg.write_docs(dp, docs)
    out = os.path.join(wd, "writer.ndjson")
    rc, txt = vlib.run_parallel([[b, dp, out, "7"]])[0]
    assert rc == 0, txt[-500:]
    return out


def record_numbers(wd, mode):
    b = numcommon.build()
    out = os.path.join(wd, f"numbers-{mode}.ndjson")
    if mode == "conv":
        table = os.path.join(wd, "table.json")
        with open(table, "w") as f:
            json.dump(numbersgen.table(), f)
        cmd = [b, "conv", table, out]
    else:
        sp = os.path.join(wd, "shapes.ndjson")
        with open(sp, "w") as f:
            for s in numbersgen.shapes(random.Random(5), 150, long_ok=False):
                f.write(json.dumps(s) + "\n")
        cmd = [b, "parse", sp, out]
    rc, txt = vlib.run_parallel([cmd])[0]
    assert rc == 0, txt[-500:]
    return out


def record_compare(wd):
    b = vlib.build("compare_record", "compare_record.cpp")
    table = os.path.join(wd, "ctable.json")
    with open(table, "w") as f:
        json.dump(comparegen.table(), f)
    out = os.path.join(wd, "compare.ndjson")
    rc, txt = vlib.run_parallel([[b, table, out]])[0]
    assert rc == 0, txt[-500:]
    return out


def record_escape(wd):
    b = vlib.build("escape_record", "escape_record.cpp")
    out = os.path.join(wd, "escape.ndjson")
    rc, txt = vlib.run_parallel([[b, out, "30", "40", "edge"]])[0]
    assert rc == 0, txt[-500:]
    return out


# ---------------------------------------------------------------------------------------------
# Curated corruptions: each changes something the property depends on, in a way that matters; the
# specification must reject every one of them.  (label, predicate on the event, mutation in place)
def _flip(path):
    def f(ev):
        v = ev
        for p_ in path[:-1]:
            v = v[p_]
        v[path[-1]] = not v[path[-1]]
    return f


def _add(path, delta):
    def f(ev):
        v = ev
        for p_ in path[:-1]:
            v = v[p_]
        v[path[-1]] = v[path[-1]] + delta
    return f


def _set(path, val):
    def f(ev):
        v = ev
        for p_ in path[:-1]:
            v = v[p_]
        v[path[-1]] = val
    return f


def _isop(ev):
    return ev.get("e") == "op"


def _liveref(ev):
    return _isop(ev) and any(r["st"] == "live" for r in ev["obs"]["refs"])


def _corrupt_liveref(ev):
    r = [r for r in ev["obs"]["refs"] if r["st"] == "live"][0]
    r["v"]["t"] = "i" if r["v"]["t"] != "i" else "n"


def _mid(caps):
    return len(caps) // 2


DOC_MUST = [
    ("serialization of a document", _isop, lambda ev: ev["obs"]["docs"][0].__setitem__("ser", ev["obs"]["docs"][0]["ser"] + "x")),
    ("overflowed() of a document", _isop, _flip(("obs", "docs", 0, "ovf"))),
    ("type of a document root", _isop, lambda ev: ev["obs"]["docs"][1]["root"].__setitem__("t", "i" if ev["obs"]["docs"][1]["root"]["t"] != "i" else "n")),
    ("size() of a document root", _isop, _add(("obs", "docs", 0, "root", "z"), 1)),
    ("value designated by a live reference", _liveref, _corrupt_liveref),
    ("status of a reference", lambda ev: _isop(ev) and ev["obs"]["refs"][0]["st"] in ("live", "unbound"),
     lambda ev: ev["obs"]["refs"][0].__setitem__("st", "unbound" if ev["obs"]["refs"][0]["st"] == "live" else "live")),
    # (only where the abstract state determines the result: a void converter on a target that cannot be resolved
    #  reports whatever the unbound reference's resource manager says - "dontcare" in Document.tla)
    ("return value", lambda ev: _isop(ev) and ev["ret"] in ("true", "false") and ev["op"]["op"] in ("docsetv", "docset"),
     lambda ev: ev.__setitem__("ret", "false" if ev["ret"] == "true" else "true")),
    ("isLinked() of a string", lambda ev: _isop(ev) and ev["obs"]["docs"][0]["root"]["t"] == "s", _flip(("obs", "docs", 0, "root", "k"))),
]
POOL_MUST = [
    ("slot id in a hook event", lambda ev: ev.get("e") == "h" and ev["k"] in (2, 3), _add(("a",), 1)),
    ("hook kind", lambda ev: ev.get("e") == "h" and ev["k"] == 2, _set(("k",), 4)),
    # (block SIZES are not part of C06: the specification's ledger holds identities; an under-sized block is
    #  AddressSanitizer's business, the deserialization memory bound is checked by reader_replay)
    ("allocator event: block id", lambda ev: ev.get("e") == "m", _add(("b",), 1000)),
    ("allocator event: outcome", lambda ev: ev.get("e") == "m" and ev["k"] == "A", _flip(("ok",))),
    ("inspector: pool usage", lambda ev: _isop(ev) and ev["snap"][1]["usage"], lambda ev: ev["snap"][1]["usage"].__setitem__(0, ev["snap"][1]["usage"][0] + 1)),
    ("inspector: reachable slots", lambda ev: _isop(ev) and ev["snap"][1]["slots"], lambda ev: ev["snap"][1]["slots"].append(99)),
    ("live blocks of an allocator", lambda ev: _isop(ev) and isinstance(ev.get("al"), list) and ev["al"] and isinstance(ev["al"][0], int), lambda ev: ev["al"].__setitem__(0, ev["al"][0] + 1)),
]
W02_MUST = [
    ("a byte of the JSON text", lambda ev: len(ev["json"]) > 2 and ev["cls"] != "mpraw", lambda ev: ev["json"].__setitem__(1, 120)),
    ("returned count", lambda ev: True, _add(("jsoncount",), 1)),
    ("measureJson", lambda ev: True, _add(("jsonmeasure",), 1)),
    ("measureJsonPretty", lambda ev: True, _add(("prettymeasure",), 1)),
    ("destination kinds agree", lambda ev: True, _flip(("jsonkinds",))),
    ("buffer law: count", lambda ev: True, lambda ev: ev["jsoncaps"][_mid(ev["jsoncaps"])].__setitem__("ret", ev["jsoncaps"][_mid(ev["jsoncaps"])]["ret"] + 1)),
    ("buffer law: prefix", lambda ev: True, lambda ev: ev["jsoncaps"][_mid(ev["jsoncaps"])].__setitem__("prefix", False)),
    ("buffer law: guard bytes", lambda ev: True, lambda ev: ev["prettycaps"][_mid(ev["prettycaps"])].__setitem__("guard", False)),
    ("buffer law: terminator", lambda ev: True, lambda ev: ev["jsoncaps"][-1].__setitem__("nul", not ev["jsoncaps"][-1]["nul"])),
    ("pretty text differs from compact by more than whitespace", lambda ev: len(ev["pretty"]) > 2 and ev["pretty"][0] in (91, 123) and len(ev["json"]) > 2,
     lambda ev: ev["pretty"].insert(1, 49)),
]
W08_MUST = [
    ("a byte of the MessagePack output", lambda ev: ev["cls"] != "jsonraw", lambda ev: ev["mp"].__setitem__(0, (ev["mp"][0] + 1) % 256)),
    ("returned count", lambda ev: True, _add(("mpcount",), 1)),
    ("measureMsgPack", lambda ev: True, _add(("mpmeasure",), 1)),
    ("destination kinds agree", lambda ev: True, _flip(("mpkinds",))),
    ("buffer law: count", lambda ev: True, lambda ev: ev["mpcaps"][_mid(ev["mpcaps"])].__setitem__("ret", ev["mpcaps"][_mid(ev["mpcaps"])]["ret"] + 1)),
    ("buffer law: prefix", lambda ev: True, lambda ev: ev["mpcaps"][-1].__setitem__("prefix", False)),
    ("float encoding: exactness", lambda ev: ev["fenc"], lambda ev: ev["fenc"][0].__setitem__("same", False)),
    ("float encoding: integral float32 written as a float", lambda ev: any(f["i64"] and f["f32"] for f in ev["fenc"]),
     lambda ev: [f for f in ev["fenc"] if f["i64"] and f["f32"]][0].__setitem__("enc", "f32")),
]
W07_MUST = [
    ("JSON round trip", lambda ev: True, _flip(("rtjsonok",))),
    ("format conversion", lambda ev: True, _flip(("convok",))),
    ("MessagePack round trip bytes", lambda ev: ev["cls"] == "plain" and ev["rtmp"], lambda ev: ev["rtmp"].__setitem__(0, (ev["rtmp"][0] + 1) % 256)),
]
N13_MUST = [
    ("as<T>() of one integer type", lambda ev: ev.get("e") == "conv", lambda ev: ev["as"].__setitem__(4, ev["as"][4] + "1")),
    ("is<T>() of one integer type", lambda ev: ev.get("e") == "conv", lambda ev: ev["is"].__setitem__(6, not ev["is"][6])),
    ("as<double>() bits", lambda ev: ev.get("e") == "conv", lambda ev: ev["dbl"].__setitem__(7, (ev["dbl"][7] + 1) % 256)),
    ("as<float>() bits", lambda ev: ev.get("e") == "conv", lambda ev: ev["flt"].__setitem__(3, (ev["flt"][3] + 1) % 256)),
    ("v | default", lambda ev: ev.get("e") == "conv", _flip(("orok",))),
]
N12_MUST = [
    ("result code", lambda ev: True, _set(("code",), "InvalidInput")),
    ("class of the parsed value", lambda ev: ev["cls"] == "finite", _set(("cls",), "nan")),
    ("measured error", lambda ev: ev["cls"] == "finite" and -300 <= ev["mag"] <= 299, _set(("err13",), 1900000000)),
    ("sign", lambda ev: ev["cls"] == "finite" and -300 <= ev["mag"] <= 299, _flip(("signok",))),
    ("integer value", lambda ev: ev["cls"] == "int" and ev["via"] == "doc", lambda ev: ev.__setitem__("ival", ev["ival"] + "0")),
    ("magnitude of a huge literal", lambda ev: ev["mag"] > 320 and ev["cls"] == "inf", lambda ev: (ev.__setitem__("cls", "finite"), ev.__setitem__("gotmag", 5))),
]
CMP_MUST = [
    ("a == b", lambda ev: ev.get("e") == "pair", _flip(("eq",))),
    ("a < b", lambda ev: ev.get("e") == "pair", _flip(("lt",))),
    ("a != b", lambda ev: ev.get("e") == "pair", _flip(("ne",))),
]

TARGETS = [
    # label, recorder, module, constants, keep first N lines (0 = all), header lines kept intact, stateful
    ("DocumentTrace", lambda wd: record_doc(wd, False), "DocumentTrace", None, 0, 1, True, DOC_MUST),
    ("SlotPoolTrace", lambda wd: record_doc(wd, True), "SlotPoolTrace", None, 400, 1, True, POOL_MUST),
    ("WriterTrace/C02", record_writer, "WriterTrace", {"MaxStrLen": 2000000000, "Focus": '"C02"'}, 0, 0, False, W02_MUST),
    ("WriterTrace/C08", record_writer, "WriterTrace", {"MaxStrLen": 2000000000, "Focus": '"C08"'}, 0, 0, False, W08_MUST),
    ("WriterTrace/C07", record_writer, "WriterTrace", {"MaxStrLen": 2000000000, "Focus": '"C07"'}, 0, 0, False, W07_MUST),
    ("NumbersTrace/C13", lambda wd: record_numbers(wd, "conv"), "NumbersTrace", {"Focus": '"C13"'}, 120, 1, False, N13_MUST),
    ("NumbersTrace/C12", lambda wd: record_numbers(wd, "parse"), "NumbersTrace", {"Focus": '"C12"'}, 0, 0, False, N12_MUST),
    ("CompareTrace", record_compare, "CompareTrace", None, 1500, 1, False, CMP_MUST),
    ("EscapeTrace", record_escape, "EscapeTrace", None, 300, 0, False, []),
]


def main():
    ncorr = int(sys.argv[1]) if len(sys.argv) > 1 else 24
    rng = random.Random(int(sys.argv[2]) if len(sys.argv) > 2 else 1)
    root = vlib.workdir("selftest")
    result = {"corruptions_per_trace": ncorr, "targets": []}
    bad = False
    for label, rec, module, consts, keep, header, stateful, must in TARGETS:
        wd = os.path.join(root, label.replace("/", "-"))
        shutil.rmtree(wd, ignore_errors=True)
        os.makedirs(wd)
        trace = rec(wd)
        with open(trace) as f:
            lines = [l for l in f if l.strip()]
        if keep:
            lines = lines[:keep]
        base = os.path.join(wd, "base.ndjson")
        with open(base, "w") as f:
            f.writelines(lines)
        ok, why = validate(module, base, os.path.join(wd, "v-base"), consts)
        entry = {"trace_spec": label, "events": len(lines), "recorded_trace_accepted": ok, "field_corruptions": 0,
                 "rejected": 0, "accepted_fields": [], "event_removals": 0, "removals_rejected": 0}
        if ok is not True:
            entry["error"] = why
            result["targets"].append(entry)
            bad = True
            continue
        jobs = []
        parsed = [json.loads(l) for l in lines]
        for k in range(ncorr):
            for _ in range(50):
                li = rng.randrange(header, len(parsed))
                lv = list(leaves(parsed[li]))
                if lv:
                    break
            path, val = rng.choice(lv)
            ev = copy.deepcopy(parsed[li])
            set_at(ev, path, corrupt_value(rng, val))
            fp = os.path.join(wd, f"c{k}.ndjson")
            with open(fp, "w") as f:
                for j, l in enumerate(lines):
                    f.write(json.dumps(ev) + "\n" if j == li else l)
            jobs.append(("field", fp, f"{parsed[li].get('e', '?')}:" + ".".join(str(p) for p in path if not isinstance(p, int))))
        # curated corruptions: every one must be rejected
        for mi, (what, pred, mut) in enumerate(must):
            cands = [j for j in range(header, len(parsed)) if pred(parsed[j])]
            if not cands:
                entry.setdefault("must_reject_not_applicable", []).append(what)
                continue
            li = rng.choice(cands)
            ev = copy.deepcopy(parsed[li])
            mut(ev)
            fp = os.path.join(wd, f"m{mi}.ndjson")
            with open(fp, "w") as f:
                for j, l in enumerate(lines):
                    f.write(json.dumps(ev) + "\n" if j == li else l)
            jobs.append(("must", fp, what))
        if stateful:
            for k in range(max(4, ncorr // 4)):
                li = rng.randrange(header, len(lines) - 1)
                fp = os.path.join(wd, f"r{k}.ndjson")
                with open(fp, "w") as f:
                    f.writelines(l for j, l in enumerate(lines) if j != li)
                jobs.append(("removal", fp, f"{parsed[li].get('e', '?')}"))

        def run(job):
            kind, fp, what = job
            okc, _ = validate(module, fp, fp + ".v", consts)
            shutil.rmtree(fp + ".v", ignore_errors=True)
            os.remove(fp)
            return kind, what, okc
        with ThreadPoolExecutor(max_workers=6) as ex:
            for kind, what, okc in ex.map(run, jobs):
                if kind == "must":
                    entry.setdefault("must_reject", 0)
                    entry["must_reject"] += 1
                    if okc is True:
                        entry.setdefault("must_reject_but_accepted", []).append(what)
                        bad = True
                elif kind == "field":
                    entry["field_corruptions"] += 1
                    if okc is True:
                        entry["accepted_fields"].append(what)
                    else:
                        entry["rejected"] += 1
                else:
                    entry["event_removals"] += 1
                    if okc is not True:
                        entry["removals_rejected"] += 1
                    else:
                        entry.setdefault("accepted_removals", []).append(what)
        entry["accepted_fields"] = sorted(set(entry["accepted_fields"]))
        result["targets"].append(entry)
        print(f"{label}: curated corruptions {entry.get('must_reject', 0)}, wrongly accepted: {entry.get('must_reject_but_accepted', [])}, "
              f"not applicable: {entry.get('must_reject_not_applicable', [])}", flush=True)
        print(f"{label}: events={entry['events']} corrupted fields rejected {entry['rejected']}/{entry['field_corruptions']}"
              f" removals rejected {entry['removals_rejected']}/{entry['event_removals']}"
              f" unconstrained: {entry['accepted_fields']} {entry.get('accepted_removals', '')}", flush=True)
        shutil.rmtree(wd, ignore_errors=True)
    os.makedirs(os.path.join(vlib.ROOT, "selftest"), exist_ok=True)
    with open(os.path.join(vlib.ROOT, "selftest", "RESULT.json"), "w") as f:
        json.dump(result, f, indent=1)
    return 1 if bad else 0


if __name__ == "__main__":
    sys.exit(main())
