"""C09  Well-formed MessagePack decodes to the value it encodes; malformed is classified.
MsgPack.tla's decoder is both the model of MsgPackDeserializer.hpp and the definition of the format.  TLC
explores every byte string over header-family alphabets up to a bound and checks on the model: every
proper prefix of a well-formed object is IncompleteInput (EmptyInput when empty), 0xC1 is InvalidInput,
a non-string key is InvalidInput, the result depends on the consumed bytes only, re-encoding with the
serializer's ladder (Canon) decodes to the same value and is stable.  An independent encoder
(msgpackgen.py) produces random values in every legal encoding (non-minimal integer and length widths,
float32/float64, fix/8/16/32 families, bin, ext), remembers the value it meant (the specification is
cross-checked against it), and their prefixes and single-byte corruptions; the library must return the
specification's code and value through every bounded input kind, with ARDUINOJSON_USE_DOUBLE 0 and 1."""
import random

import vlib
from checks import readerchecks as rk
from checks import readercommon as rc
from checks import msgpackcommon as mp
from checks import msgpackgen as mg


def run(tier):
    chk = vlib.Check("C09", tier)
    wd = vlib.workdir("C09")
    quick = tier == "quick"
    D = rc.OPTS_DEFAULT
    variants = [("def", D, [], False), ("nodouble", D, ["ARDUINOJSON_USE_DOUBLE=0"], False),
                ("small", D, ["ARDUINOJSON_SLOT_ID_SIZE=1", "ARDUINOJSON_STRING_LENGTH_SIZE=1",
                              "ARDUINOJSON_POOL_CAPACITY=4"], False), ("arduino", D, [], True)]
    bins = rk.build_readers(variants)
    for name, byteset, maxlen in (("headers", "headers", 3 if quick else 4), ("widths", "widths", 3 if quick else 4)):
        r, cases, n = mp.mc_cases(chk, name, wd, byteset, maxlen, [0, 1, 2], "none")
        if cases is None:
            continue
        chk.add_tlc(r)
        for label in ("def", "nodouble"):
            ran, evals, problems, _ = rc.replay_cases(chk, bins[label], cases, f"{name}/{label}")
            chk.cov["evaluations"] += evals
            chk.cov["traces_validated_against_impl"] += ran
            for what, case in problems[:3]:
                chk.violation(what, case)
        chk.phase(f"tlc:{name}", inputs=r.distinct, cases=n)
    rng = random.Random(vlib.seed())
    mp.run_msgpack_feed(chk, wd, "encodings", rng, 4000 if quick else 60000,
                        [(l, bins[l]) for l in ("def", "nodouble", "arduino")])
    # within the small configuration's limits (strings up to 255 bytes, 255 slots)
    mp.run_msgpack_feed(chk, wd, "encodings-small", rng, 1500 if quick else 20000, [("small", bins["small"])])
    return rk.finish(chk, "one evaluation = one byte string through one bounded input kind on one build; code, value "
                          "(integers with value and sign, floats bit-exact, strings byte-exact, bin/ext re-serialized "
                          "byte for byte) and consumed bytes compared", rk.COMMON_ASSUMPTIONS + [
        "maps with repeated keys are generated too: MsgPack.tla keeps every entry in order, as the format allows",
        "ARDUINOJSON_USE_LONG_LONG=0 is not exercised",
        "with ARDUINOJSON_USE_DOUBLE=0 a float64 is compared after rounding to float (1.2e-7 relative)"])
