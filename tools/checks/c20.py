"""C20  Distinct documents can be used from distinct threads without synchronisation.
Model level: Threads.tla abstracts every operation to its read / write footprint over {documents, the
shared DefaultAllocator, constant tables}; TLC checks RaceFree for every interleaving of operations in
progress when the shared document is only read (const access), and must find the documented race when the
shared document is passed as Filter(JsonDocument&) (non-vacuity).  Implementation: 8 threads each replay a
spec-annotated behaviour stream (DocumentFeed.tla: expected observation after every operation) on their own
documents, on the shared default allocator, with yields, while copying from / filtering by / serializing a
document shared through JsonVariantConst, and while deserializing / serializing its share of reader cases
computed by TLC from JsonReader.tla and MsgPack.tla (escapes, surrogate pairs, numbers, MessagePack); every
per-thread execution must match the sequential expectation (that is the property), for several seeds; the binary is built with ThreadSanitizer (any data
race inside the library aborts the run) and once more with AddressSanitizer."""
import os
import random
import subprocess

import vlib
from checks import doccommon as dc
from checks import readercommon as rc
from checks import readergen as rg
from checks import msgpackcommon as mc
from checks import msgpackgen as mg


def run(tier):
    chk = vlib.Check("C20", tier)
    wd = vlib.workdir("C20")
    quick = tier == "quick"
    tsan = vlib.build("threads_replay-tsan", "threads_replay.cpp", sanitize=False, opt="-O1", compiler="clang++",
                      extra=["-fsanitize=thread", "-lpthread"])
    asan = vlib.build("threads_replay-asan", "threads_replay.cpp", extra=["-lpthread"])
    # model level
    for shared_by_ref, expect_violation in ((False, False), (True, True)):
        cfg = os.path.join(wd, f"threads-{int(shared_by_ref)}.cfg")
        with open(cfg, "w") as f:
            f.write("SPECIFICATION Spec\nCONSTANTS\n  Threads <- MCThreads\n  DocsOf <- MCDocsOf\n"
                    f"  SharedByRef = {'TRUE' if shared_by_ref else 'FALSE'}\nINVARIANT RaceFree\nCHECK_DEADLOCK FALSE\n")
        r = vlib.run_tlc("ThreadsMC", cfg, os.path.join(wd, f"th{int(shared_by_ref)}"), workers=4, timeout=600)
        if expect_violation:
            if r.violation != "property":
                raise vlib.InfraError("Threads.tla no longer finds the Filter(JsonDocument&) race: RaceFree is vacuous")
        elif r.violation == "property":
            chk.violation("Threads.tla: the footprints of operations on distinct documents conflict: " + vlib.tlc_error_excerpt(r))
        elif not r.ok:
            raise vlib.InfraError("TLC failed on ThreadsMC: " + vlib.tlc_error_excerpt(r))
        else:
            chk.add_tlc(r)
    chk.phase("tlc:Threads", states=chk.cov["states"])
    # implementation level
    nthreads = 8
    r, streams, n = dc.generate_feed(chk, "tfeed", wd, candidates=16000 if quick else 80000, procs=nthreads, nd=2, nr=2)
    chk.add_tlc(r)
    # reader cases (inputs with \\u escapes and surrogate pairs, every number spelling, MessagePack encodings):
    # expected code and value computed by TLC from JsonReader.tla / MsgPack.tla
    rng = random.Random(vlib.seed() + 20)
    D = rc.OPTS_DEFAULT
    wants = []
    jl = rg.gen_valid(rng, D, 1200 if quick else 6000, wants)
    jw = dict(enumerate(wants))
    jl += rg.gen_escape_offsets(D, 40)
    jl += rg.gen_mutants(rng, D, 300 if quick else 3000)
    jl = [dict(l, f=rg.TRUE) for l in jl]
    r1, jcases, _ = rc.feed_cases(chk, "tcases-json", wd, jl, jw)
    chk.add_tlc(r1)
    wants = []
    ml = mg.gen_valid(rng, 400 if quick else 4000, wants)
    r2, mcases, _ = mc.feed_cases(chk, "tcases-msgpack", wd, ml, dict(enumerate(wants)))
    chk.add_tlc(r2)
    cases = os.path.join(wd, "tcases.ndjson")
    with open(cases, "w") as out:
        for fp in (jcases, mcases):
            with open(fp) as f:
                out.write(f.read())
            os.remove(fp)
    runs = 3 if quick else 16
    env = dict(os.environ, TSAN_OPTIONS="halt_on_error=1 exitcode=66 second_deadlock_stack=1")
    ops = 0
    for k in range(runs):
        for label, b in (("tsan", tsan), ("asan", asan)) if k % 3 == 0 or not quick else (("tsan", tsan),):
            rotated = streams[k % nthreads:] + streams[:k % nthreads]
            try:
                p = subprocess.run([b, str(vlib.seed() * 100 + k), "--cases", cases] + rotated, capture_output=True, text=True, timeout=900,
                                   env=env, errors="replace")
            except subprocess.TimeoutExpired:
                chk.violation(f"threads run {k} ({label}) did not terminate")
                continue
            summ = [l for l in p.stdout.splitlines() if l.startswith("SUMMARY")]
            if p.returncode != 0 or not summ:
                what = "data race reported by ThreadSanitizer" if "ThreadSanitizer" in p.stderr else \
                       "per-thread execution differs from the sequential specification or crashed"
                chk.violation(f"threads run {k} ({label}) seed={vlib.seed() * 100 + k}: {what}: "
                              f"{p.stdout[-600:]} {p.stderr[-1800:]}")
            else:
                kv = vlib.kvs(summ[0])
                ops += int(kv["ops"]) + int(kv["shared_reads"]) + int(kv["cases"])
                chk.cov["traces_validated_against_impl"] += nthreads
    for st in streams:
        os.remove(st)
    os.remove(cases)
    chk.phase("threads", runs=runs, threads=nthreads, operations=ops)
    chk.sample({"threads": nthreads, "stream_events_per_thread": n // nthreads, "seed": vlib.seed()})
    chk.cov["evaluations"] = ops
    chk.cov["distinct_nontrivial"] = ops
    chk.cov["rule"] = ("one evaluation = one operation executed by one of 8 concurrent threads on its own documents and "
                       "compared with the sequential expectation, one read of the shared document, or one reader case "
                       "(deserialize, compare with the specification's value, serialize and read back)")
    chk.assumptions += ["schedules are sampled (seeds, yields), not enumerated: the model-level race analysis is exhaustive, "
                        "the implementation-level one is as strong as ThreadSanitizer's happens-before tracking on these runs",
                        "the default allocator is malloc/free (thread safe)"]
    return chk.finish()
