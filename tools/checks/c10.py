"""C10  deserializeJson accepts exactly the documented dialect and classifies the rest.
JsonReader.tla is the executable description of the dialect.  TLC explores every string over several
symbol alphabets (structural characters, inside strings, numbers, keywords, comments, \\u escapes, whole
tokens) up to a bound, for every nesting limit 0..2, checks the classification properties on the model
(six codes, EmptyInput iff only whitespace/comments, an unclosed top-level array/object/string is never
accepted) and emits every (input, result) as a test case; plus seeded mutants of valid texts.  Every
case is replayed through every input kind on builds with the comment / NaN / Infinity / unicode options."""
import random

import vlib
from checks import readerchecks as rk
from checks import readercommon as rc
from checks import readergen as rg


def run(tier):
    chk = vlib.Check("C10", tier)
    wd = vlib.workdir("C10")
    quick = tier == "quick"
    D, A, U = rc.OPTS_DEFAULT, rc.OPTS_ALL, rc.OPTS_NOUNI
    # (the two asymmetric NaN / Infinity settings are part of the quick tier too: each option must stay
    #  independent of the other)
    NANONLY = dict(comments=False, nan=True, inf=False, unicode=True)
    INFONLY = dict(comments=False, nan=False, inf=True, unicode=True)
    variants = [("def", D, [], False), ("all", A, [], False), ("nouni", U, [], False),
                (rc.opt_name(NANONLY), NANONLY, [], False), (rc.opt_name(INFONLY), INFONLY, [], False)]
    if not quick:
        for c in (0, 1):
            for n in (0, 1):
                for i in (0, 1):
                    for u in (0, 1):
                        o = dict(comments=bool(c), nan=bool(n), inf=bool(i), unicode=bool(u))
                        if o not in (D, A, U, NANONLY, INFONLY):
                            variants.append((rc.opt_name(o), o, [], False))
    bins = rk.build_readers(variants)
    by_opts = rk.group_by_opts(bins, variants)
    k = 0 if quick else 1
    L = [0, 1, 2]
    plan = [("chars", "chars", 4 + k, L, "none", D), ("string", "string", 4 + k, L, "none", D),
            ("string-nouni", "string", 4 + k, L, "none", U), ("number", "number", 4 + k, L, "none", D),
            ("number-all", "number", 4 + k, L, "none", A), ("keyword-all", "keyword", 4 + k, L, "none", A),
            ("keyword", "keyword", 4 + k, L, "none", D), ("comment-all", "comment", 4 + k, L, "none", A),
            ("comment-off", "comment", 4, L, "none", D), ("hex", "hex", 3 + k, L, "none", D),
            ("tokens", "tokens", 3 + k, L, "none", D)]
    for label, o, _, _ in variants[3:5]:
        plan += [(f"keyword-{label}", "keyword", 4, L, "none", o), (f"number-{label}", "number", 4, L, "none", o)]
    if not quick:
        for label, o, _, _ in variants[5:]:
            plan += [(f"chars-{label}", "chars", 4, L, "none", o), (f"number-{label}", "number", 4, L, "none", o),
                     (f"comment-{label}", "comment", 4, L, "none", o), (f"keyword-{label}", "keyword", 4, L, "none", o)]
    rk.run_mc(chk, wd, by_opts, plan)
    rng = random.Random(vlib.seed())
    for label, o, _, _ in variants[:5] if quick else variants:
        lines = rg.gen_mutants(rng, o, 2500 if quick else 20000)
        lines += rg.gen_long_tokens(rng, o, 800 if quick else 8000)
        lines += rg.gen_duplicate_keys(rng, o)
        rk.run_feed(chk, wd, f"mutants-{label}", lines, None, [(label, bins[label])])
    return rk.finish(chk, "one evaluation = one (input, nesting limit, option set) case computed by TLC from "
                          "JsonReader.tla, given to the deserializer through one input kind; code, value and bytes "
                          "consumed compared", rk.COMMON_ASSUMPTIONS + [
        "don't-care zone: the numeric value of literals without a mantissa digit or with an empty exponent "
        "(\".\", \"1e\") is not compared, only that they are accepted as numbers"])
