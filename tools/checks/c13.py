"""C13  Typed extraction is exact when it fits and zero otherwise, never undefined.
NumbersTrace.tla (Focus C13) knows a number by its rank among the landmarks and type limits, by the decimal
spelling of its truncation and by the bit patterns of its nearest double / float, and decides for every
landmark (values within 2 and within 1/2 of every power of two and type limit, in every storage kind:
int32, uint32, int64, uint64, float, double, numeric string) and every target type: as<T>() = truncation
if in range else 0; is<T>() iff stored as an integer that fits; agreement with every wider type; v | default;
as<double>/as<float> nearest; is<float/double>.  32-bit storage kinds are swept (quick: strided; thorough:
all 2^32 values per kind and target) with the behaviour class logged run-length compressed: no value may
convert to anything but its truncation or 0.  copyArray with guard elements.  UBSan (float-cast-overflow,
signed overflow) is on."""
import json
import os
import random

import vlib
from checks import numbersgen, numcommon


def run(tier):
    chk = vlib.Check("C13", tier)
    wd = vlib.workdir("C13")
    quick = tier == "quick"
    b = numcommon.build()
    table = os.path.join(wd, "table.json")
    with open(table, "w") as f:
        json.dump(numbersgen.table(), f)
    jobs = [("conv", [b, "conv", table, os.path.join(wd, "conv.ndjson")], os.path.join(wd, "conv.ndjson")),
            ("copyarray", [b, "copyarray", os.path.join(wd, "copy.ndjson")], os.path.join(wd, "copy.ndjson"))]
    stride = 7919 if quick else 1
    parts = 4 if quick else 16
    span = 2**32 // parts
    for store in ("f32", "i32", "u32"):
        for p in range(parts):
            out = os.path.join(wd, f"sweep-{store}-{p}.ndjson")
            jobs.append((f"sweep-{store}-{p}", [b, "sweep", out, store, str(p * span), str((p + 1) * span - 1), str(stride)], out))
    # numeric strings of any length and spelling through as<T>(), in double and in single precision builds
    bf = numcommon.build(["ARDUINOJSON_USE_DOUBLE=0"], "numbers_record-float")
    shapes = numbersgen.shapes(random.Random(vlib.seed() + 13), 2000 if quick else 40000)
    for p, bb in enumerate((b, bf, b, bf)):
        sp = os.path.join(wd, f"shapes{p}.ndjson")
        with open(sp, "w") as f:
            for s_ in shapes[p // 2::2]:
                f.write(json.dumps(s_) + "\n")
        out = os.path.join(wd, f"strings{p}.ndjson")
        jobs.append((f"strings{p}", [bb, "parse", sp, out], out))
    good = numcommon.run_jobs(chk, jobs)
    n = numcommon.validate_all(chk, "C13", good, wd)
    with open(os.path.join(wd, "conv.ndjson")) as f:
        f.readline()
        chk.sample({"conv_event": f.readline().strip()[:500]})
    swept = (2**32 // stride) * 3 * 8
    chk.phase("numbers-trace-validation", events=n, swept_conversions=swept)
    chk.cov["evaluations"] = n + swept
    chk.cov["distinct_nontrivial"] = n + swept
    chk.cov["exhaustive"] = not quick
    chk.cov["rule"] = ("one evaluation = one (landmark, storage) row with all ten integer targets and both floating targets, "
                       "or one swept (32-bit pattern, storage, target) conversion")
    chk.assumptions += ["the behaviour class of a swept value (exact truncation / zero / other) is computed by the harness with "
                        "long double arithmetic; TLC requires that no 'other' occurs",
                        "numeric strings are limited to literals of at most 15 digits that are exactly representable (so that "
                        "their rank is not blurred by the parser's 1e-13 accuracy); longer strings belong to C12"]
    return chk.finish()
