"""C01  Valid JSON deserializes to exactly the value it denotes.
A seeded generator spells random values as RFC 8259 texts (every whitespace layout, named / \\uXXXX
lower- and upper-case escapes, surrogate pairs, empty keys, keys with NUL, keys that are prefixes of one
another, repeated keys with the last one winning) and remembers the value it meant; JsonReader.tla
(through JsonReaderFeed.tla) computes the result for each text and must agree with the generator (the
specification is cross-checked first); then the text goes through every input kind into every
destination pre-state (fresh, holding other content, nested value of another document) on several
builds, and code, value and bytes consumed must equal the specification's."""
import random

import vlib
from checks import readerchecks as rk
from checks import readercommon as rc
from checks import readergen as rg
from checks import doccommon as dc


def run(tier):
    chk = vlib.Check("C01", tier)
    wd = vlib.workdir("C01")
    quick = tier == "quick"
    D = rc.OPTS_DEFAULT
    variants = [("def", D, [], False), ("arduino", D, [], True), ("g2x1s1", D, dc.geom_defines("g2x1s1"), False),
                ("all", rc.OPTS_ALL, [], False)]
    bins = rk.build_readers(variants)
    rng = random.Random(vlib.seed())
    for label, o in (("def", D), ("all", rc.OPTS_ALL)):
        wants = []
        lines = rg.gen_valid(rng, o, 3000 if quick else 40000, wants)
        lines += rg.gen_escape_offsets(o, 70 if quick else 140)
        lines += rg.gen_duplicate_keys(rng, o)      # every ordered pair of value kinds under a repeated key
        if label == "def":                          # number literals up to the documented 63 characters
            base = len(lines)
            ln, lw = rg.gen_long_numbers(rng, 120 if quick else 2000)
            lines += ln
            longwants = {base + i: w for i, w in enumerate(lw)}
        else:
            longwants = {}
        targets = [(l, bins[l]) for l in (("def", "arduino", "g2x1s1") if label == "def" else ("all",))]
        allwants = dict(enumerate(wants))
        allwants.update(longwants)
        rk.run_feed(chk, wd, f"valid-{label}", lines, allwants, targets)
    # bounded-exhaustive token strings (includes every short valid text)
    rk.run_mc(chk, wd, rk.group_by_opts(bins, variants[:1]), [("tokens", "tokens", 3 if quick else 4, [2], "none", D)])
    return rk.finish(chk, "one evaluation = one valid text (or token string) through one input kind into one "
                          "destination pre-state; the expected value is the specification's, which is first "
                          "cross-checked against the value the generator meant to spell",
                     rk.COMMON_ASSUMPTIONS + ["ARDUINOJSON_DECODE_UNICODE=1 builds only (as the property states)"])
