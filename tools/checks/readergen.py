"""Seeded generators of deserializer inputs for the feed specs (JsonReaderFeed.tla, MsgPackFeed.tla).
A generator only CHOOSES inputs (and, for valid texts, remembers the value it meant to spell so that
the specification itself can be cross-checked); every expected result comes from TLC."""
import json
import random

TRUE = {"t": "T", "b": [], "c": []}
FALSE = {"t": "F", "b": [], "c": []}
NULL = {"t": "n", "b": [], "c": []}


def node(t, b=None, c=None):
    return {"t": t, "b": list(b or []), "c": c or []}


def sbytes(s):
    return list(s.encode("latin-1")) if isinstance(s, str) else list(s)


# ------------------------------------------------------------------ values
KEY_POOL = [b"a", b"b", b"ab", b"", b"a\x00b", b"a\x00c", b"key", b"\xc3\xa9", b"a b", b"*", b"k\\", b'q"']
STR_POOL = [b"", b"a", b"hello", b"a\x00b", b"\xc3\xa9\xe2\x82\xac", b"\xf0\x9f\x98\x80", b'q"q', b"back\\slash", b"/",
            b"C:\\", b"\\", b"\\\\", b'\\"', b'"\\', b"end\\\\\\",
            b"tab\there", b"nl\nx", b"\x01\x1f", b"\x7f", b"'", b"42"]
INT_POOL = ["0", "1", "-1", "42", "2147483647", "2147483648", "-2147483648", "-2147483649", "4294967295",
            "4294967296", "9223372036854775807", "9223372036854775808", "-9223372036854775808",
            "18446744073709551615"]
FLT_POOL = ["1.5", "-0.25", "3.25", "0.5", "1e3", "2.5E-3", "-1.25e+2", "100.0", "0.0", "-0.0", "6.02e23", "1e-7"]


NONFINITE = []       # literals of the NaN / Infinity dialect options, filled in by use_options()


def use_options(o):
    """Makes the value generator use the number literals the build's options add to the dialect."""
    global NONFINITE
    NONFINITE = (["NaN", "-NaN", "+NaN"] if o.get("nan") else []) + \
                (["Infinity", "-Infinity", "inf", "+inf", "-inf"] if o.get("inf") else [])


def rand_value(rng, depth=0, maxdepth=3):
    k = rng.randrange(9 if depth < maxdepth else 6)
    if k == 0:
        return node("n")
    if k == 1:
        return node(rng.choice("TF"))
    if k == 2:
        return node("#", sbytes(rng.choice(INT_POOL)))
    if k == 3:
        if NONFINITE and rng.random() < 0.3:
            return node("#", sbytes(rng.choice(NONFINITE)))
        return node("#", sbytes(rng.choice(FLT_POOL)))
    if k in (4, 5):
        return node("s", rng.choice(STR_POOL))
    if k in (6, 7):
        return node("a", c=[rand_value(rng, depth + 1, maxdepth) for _ in range(rng.randrange(4))])
    keys = rng.sample(KEY_POOL, rng.choice([0, 1, 2, 3, 3, 4, 6]))
    members = []
    for key in keys:
        # a string value is sometimes the text of one of the object's own keys (an earlier or a later one):
        # values and keys share the string storage and, in the slot list, the same chain
        v = node("s", rng.choice(keys)) if rng.random() < 0.25 else rand_value(rng, depth + 1, maxdepth)
        members.append(node("m", key, [v]))
    return node("o", c=members)


# ------------------------------------------------------------------ JSON spelling (RFC 8259 only)
WS = [b"", b"", b" ", b"\n", b"\t", b"\r\n ", b"  "]
COMMENT_P = 0.0     # probability that a piece of inter-token space holds a comment (builds with comments enabled)


def rand_comment(rng):
    """A complete comment: block comments may hold stars and slashes (but no terminator) and may end
    with several stars; line comments end with a newline."""
    if rng.random() < 0.6:
        while True:
            body = bytes(rng.choice(b"**/ x\n\"[/") for _ in range(rng.randrange(6)))
            if (body + b"*/").find(b"*/") == len(body):
                return b"/*" + body + b"*/"
    body = bytes(rng.choice(b"*/ x\"[/") for _ in range(rng.randrange(5)))
    return b"//" + body + b"\n"


def ws(rng):
    w = rng.choice(WS)
    if COMMENT_P and rng.random() < COMMENT_P:
        w += rand_comment(rng) + rng.choice(WS)
    return w
NAMED = {0x22: b'\\"', 0x5C: b"\\\\", 0x2F: b"\\/", 0x08: b"\\b", 0x0C: b"\\f", 0x0A: b"\\n", 0x0D: b"\\r", 0x09: b"\\t"}


def spell_string(rng, data, unicode_on=True):
    """A JSON string literal denoting exactly the bytes `data` (UTF-8 sequences may be spelled \\uXXXX)."""
    out = bytearray(b'"')
    i = 0
    while i < len(data):
        c = data[i]
        # try to spell a whole UTF-8 sequence as \u escapes
        if c >= 0x80 and unicode_on and rng.random() < 0.5:
            try:
                n = 2 if c < 0xE0 else 3 if c < 0xF0 else 4
                ch = bytes(data[i:i + n]).decode("utf-8")
                cp = ord(ch)
                if cp >= 0x10000:
                    cp -= 0x10000
                    units = [0xD800 + (cp >> 10), 0xDC00 + (cp & 0x3FF)]
                else:
                    units = [cp]
                for u in units:
                    out += (b"\\u%04x" if rng.random() < 0.5 else b"\\u%04X") % u
                i += n
                continue
            except (UnicodeDecodeError, ValueError):
                pass
        if c in NAMED and (c in (0x22, 0x5C) or c < 0x20 or rng.random() < 0.5):
            out += NAMED[c]
        elif c < 0x20 or (c < 0x80 and unicode_on and rng.random() < 0.1):
            if not unicode_on and c >= 0x20:
                out.append(c)
            elif not unicode_on:
                out += NAMED.get(c, bytes([c]))  # control chars without a named escape cannot be spelled: raw
            else:
                out += (b"\\u%04x" if rng.random() < 0.5 else b"\\u%04X") % c
        else:
            out.append(c)
        i += 1
    out += b'"'
    return bytes(out)


def spell_number(rng, lit):
    """RFC 8259 spellings only (the lenient ones belong to the dialect tests)."""
    return lit.encode()


def spell(rng, v, unicode_on=True):
    t = v["t"]
    if t == "n":
        return b"null"
    if t == "T":
        return b"true"
    if t == "F":
        return b"false"
    if t == "#":
        return spell_number(rng, bytes(v["b"]).decode())
    if t == "s":
        return spell_string(rng, bytes(v["b"]), unicode_on)
    if t == "a":
        parts = [ws(rng) + spell(rng, e, unicode_on) + ws(rng) for e in v["c"]]
        return b"[" + (b",".join(parts) if parts else ws(rng)) + b"]"
    if t == "o":
        parts = []
        for m in v["c"]:
            parts.append(ws(rng) + spell_string(rng, bytes(m["b"]), unicode_on) + ws(rng) + b":" +
                         ws(rng) + spell(rng, m["c"][0], unicode_on) + ws(rng))
        return b"{" + (b",".join(parts) if parts else ws(rng)) + b"}"
    raise ValueError(t)


def with_duplicates(rng, v):
    """Repeats some keys of objects: the LAST occurrence wins, at the position of the first.
    Returns (value to spell, value meant)."""
    if v["t"] == "a":
        pairs = [with_duplicates(rng, e) for e in v["c"]]
        return node("a", c=[p[0] for p in pairs]), node("a", c=[p[1] for p in pairs])
    if v["t"] != "o":
        return v, v
    spelled, meant = [], []
    for m in v["c"]:
        s, w = with_duplicates(rng, m["c"][0])
        spelled.append(node("m", m["b"], [s]))
        meant.append(node("m", m["b"], [w]))
    if meant and rng.random() < 0.5:
        j = rng.randrange(len(meant))
        newv = rand_value(rng, 3, 3)
        spelled.append(node("m", meant[j]["b"], [newv]))
        meant[j] = node("m", meant[j]["b"], [newv])
    return node("o", c=spelled), node("o", c=meant)


# ------------------------------------------------------------------ filters
def rand_filter(rng, depth=0):
    k = rng.randrange(8 if depth < 3 else 4)
    if k == 0:
        return TRUE
    if k == 1:
        return FALSE
    if k == 2:
        return NULL
    if k == 3:
        return node("s", b"x")
    if k in (4, 5):
        n = rng.randrange(3)
        return node("a", c=[rand_filter(rng, depth + 1) for _ in range(n)])
    keys = rng.sample([b"a", b"b", b"ab", b"*", b"", b"a\x00b", b"key"], rng.randrange(4))
    return node("o", c=[node("m", k_, [rand_filter(rng, depth + 1)]) for k_ in keys])


# ------------------------------------------------------------------ feed lines
def line(inp, o, lim=10, f=None, tag="", **extra):
    d = {"inp": list(inp), "lim": lim, "f": f or TRUE, "o": o, "tag": tag}
    d.update(extra)
    return d


def nesting(v):
    if v["t"] == "a":
        return 1 + max([nesting(e) for e in v["c"]] + [0])
    if v["t"] == "o":
        return 1 + max([nesting(m["c"][0]) for m in v["c"]] + [0])
    return 0


def gen_valid(rng, o, n, want_out):
    """Valid RFC 8259 texts; want_out[i] is the value each text means."""
    global COMMENT_P
    use_options(o)
    out = []
    for _ in range(n):
        COMMENT_P = 0.2 if o["comments"] and rng.random() < 0.3 else 0.0
        v = rand_value(rng)
        spelled, meant = with_duplicates(rng, v) if rng.random() < 0.3 else (v, v)
        text = ws(rng) + spell(rng, spelled, o["unicode"]) + ws(rng)
        need = max(nesting(meant), nesting(spelled))  # a value that is overwritten later is still parsed
        out.append(line(text, o, lim=max(need, rng.choice([need, 10, 255])), tag="valid"))
        want_out.append(meant)
    COMMENT_P = 0.0
    return out


def gen_mutants(rng, o, n):
    global COMMENT_P
    use_options(o)
    out = []
    for _ in range(n):
        COMMENT_P = 0.2 if o["comments"] and rng.random() < 0.3 else 0.0
        v = rand_value(rng)
        text = bytearray(spell(rng, v, o["unicode"]))
        how = rng.randrange(6)
        if how == 0 and text:
            text = text[:rng.randrange(len(text))]                       # truncation
        elif how == 1 and text:
            text[rng.randrange(len(text))] = rng.choice(b'[]{}",:\\/ \n0e-.tnfu\x00\xff*')   # substitution
        elif how == 2 and text:
            del text[rng.randrange(len(text))]                           # deletion
        elif how == 3:
            text.insert(rng.randrange(len(text) + 1), rng.choice(b'[]{}",:\\/ 1\x00'))       # insertion
        elif how == 4:
            text = bytearray(rng.randrange(256) for _ in range(rng.randrange(12)))           # random bytes
        else:
            text += rng.choice([b" x", b",", b"]", b" 1", b"\x00[", b"//c\n", b"/*c*/"])     # trailing bytes
        out.append(line(bytes(text), o, lim=rng.choice([0, 1, 2, 10, 255]), tag="mutant",
                        f=rand_filter(rng) if rng.random() < 0.3 else TRUE))
    COMMENT_P = 0.0
    return out


def gen_long_tokens(rng, o, n):
    """Tokens around the internal buffer sizes: number runs of 60..70 and 200 characters (the number buffer
    holds 63), long strings and keys (the string builder starts at 31 and doubles), long whitespace,
    long comments; at top level, inside arrays and objects, kept and skipped by a filter."""
    out = []
    lens = [30, 31, 32, 33, 61, 62, 63, 64, 65, 66, 70, 127, 128, 129, 200, 300]
    for _ in range(n):
        L = rng.choice(lens)
        kind = rng.randrange(7)
        if kind == 0:
            tok = bytes(rng.choice(b"0123456789") for _ in range(L))
            tok = (b"-" if rng.random() < 0.3 else b"") + (tok.lstrip(b"0") or b"1")
        elif kind == 1:
            tok = b"1." + bytes(rng.choice(b"0123456789") for _ in range(L))
        elif kind == 2:
            tok = bytes(rng.choice(b"0123456789") for _ in range(L)) + rng.choice([b"e5", b"E-7", b"e+10", b".5e1"])
        elif kind == 3:
            tok = bytes(rng.choice(b"0123456789+-.eE") for _ in range(L))
        elif kind == 4:
            L = min(L, 200)   # stays below the 255-byte limit of the smallest configuration
            tok = b'"' + bytes(rng.choice(b"abcdefghij \\n") for _ in range(L)).replace(b"\\", b"\\\\").replace(b"n\\", b"nn") + b'"'
        elif kind == 5:
            tok = b" " * L + rng.choice([b"1", b"true", b"[]"]) + b"\n" * rng.randrange(3)
        else:
            tok = (b"/*" + b"x" * L + b"*/1") if o["comments"] else b"\t" * L + b"null"
        ctx = rng.randrange(5)
        if ctx == 0:
            text = tok
        elif ctx == 1:
            text = b"[" + tok + b"]"
        elif ctx == 2:
            text = b"[1," + tok + b",2]"
        elif ctx == 3:
            text = b'{"a":' + tok + b',"b":' + tok + b"}"
        else:
            text = b'{"k":[' + tok + b"]}" + rng.choice([b"", b" x"])
        f = rng.choice([TRUE, TRUE, FALSE, node("o", c=[node("m", b"b", [TRUE])]), node("a", c=[FALSE])])
        out.append(line(text, o, lim=rng.choice([2, 10]), f=f, tag="longtoken"))
    return out


def gen_long_strings(rng, o, maxstr, n):
    """Strings and keys whose DECODED length sits on both sides of the longest string the build can store
    (maxstr - 1, maxstr, maxstr + 1, maxstr + 40), with escapes that shorten (\\n) or lengthen (\\u00e9) the
    text relative to its bytes; as value, as key, first and later in a container, kept and skipped by a filter.
    The feed lines carry maxstr in their options: JsonReader.tla answers NoMemory for a stored string beyond it."""
    oo = dict(o, maxstr=maxstr)
    out = []
    for _ in range(n):
        target = maxstr + rng.choice([-1, 0, 0, 1, 1, 2, 40])
        body = bytearray()
        decoded = 0
        while decoded < target:
            k = rng.randrange(12)
            if k == 0 and decoded + 1 <= target:
                body += b"\\n"
                decoded += 1
            elif k == 1 and o["unicode"] and decoded + 2 <= target:
                body += b"\\u00e9"
                decoded += 2
            elif k == 2 and o["unicode"] and decoded + 4 <= target:
                body += b"\\ud83d\\ude00"
                decoded += 4
            else:
                body += bytes([rng.choice(b"abcdefghijklmnopqrstuvwxyz 0123456789")])
                decoded += 1
        tok = b'"' + bytes(body) + b'"'
        ctx = rng.randrange(7)
        if ctx == 0:
            text = tok
        elif ctx == 1:
            text = b"[" + tok + b",1]"
        elif ctx == 2:
            text = b'[1,"x",' + tok + b"]"
        elif ctx == 3:
            text = b"{" + tok + b":1}"
        elif ctx == 4:
            text = b'{"a":' + tok + b',"b":2}'
        elif ctx == 5:
            text = b'{"a":1,' + tok + b":[true]}" + rng.choice([b"", b" "])
        else:
            text = b"[" + tok + b"," + tok + b"]"
        f = rng.choice([TRUE, TRUE, TRUE, FALSE, node("o", c=[node("m", b"b", [TRUE])]), node("a", c=[FALSE])])
        out.append(line(text, oo, lim=10, f=f, tag="longstring"))
    return out


def gen_slot_limit(rng, o, slots, n):
    """Inputs whose slot demand sweeps across the number of slots the build can address (`slots`, give or take the
    pool geometry): arrays of scalars ending in an object, objects with many members, an object inside the last
    element.  Either the specification's result or NoMemory is legitimate (tag "slotlimit"); what matters is the
    state of the document afterwards (no member without a value, serializable, clearable, nothing leaked)."""
    out = []
    for _ in range(n):
        kind = rng.randrange(4)
        k = slots + rng.randrange(-14, 6)
        if kind == 0:      # k-3 one-slot elements, then an object with one member (3 slots)
            body = b",".join([rng.choice([b"0", b"1", b"true", b"null"]) for _ in range(max(0, k - 3))])
            text = b"[" + body + (b"," if body else b"") + b'{"k":1}]'
        elif kind == 1:    # members: two slots each
            m = max(1, k // 2)
            text = b"{" + b",".join(b'"k%d":%d' % (i, i % 10) for i in range(m)) + b"}"
        elif kind == 2:    # elements with an extension slot (two slots each), then a nested member
            m = max(0, (k - 4) // 2)
            text = b"[" + b",".join([b"1099511627776"] * m) + (b"," if m else b"") + b'[{"a":"b"}]]'
        else:              # a repeated key after the fill: the value is replaced, not added
            m = max(1, (k - 2) // 2)
            text = b"{" + b",".join(b'"k%d":%d' % (i, i % 10) for i in range(m)) + b',"k0":[1]}'
        out.append(line(text, o, lim=10, tag="slotlimit"))
    return out


DUP_VALUES = [b"null", b"true", b"false", b"0", b"-1.5", b'"s"', b'""', b"[]", b"[1,2]", b"{}", b'{"a":1}', b'[{"a":[true]}]']
DUP_FILTERS = None


def gen_duplicate_keys(rng, o, filters=False):
    """Objects in which a key occurs twice (and three times), for EVERY ordered pair of value kinds (null, booleans,
    numbers, strings, empty and non-empty arrays and objects), the occurrences adjacent or separated by another
    member, at top level and nested; the last occurrence wins at the position of the first.  With filters=True
    each text comes with filters that keep the key entirely, through a nested array / object filter, through "*",
    or not at all."""
    out = []
    flt = [TRUE]
    if filters:
        kT = node("o", c=[node("m", b"k", [TRUE])])
        kArr = node("o", c=[node("m", b"k", [node("a", c=[TRUE])])])
        kObj = node("o", c=[node("m", b"k", [node("o", c=[node("m", b"a", [TRUE])])])])
        star = node("o", c=[node("m", b"*", [node("a", c=[TRUE])])])
        other = node("o", c=[node("m", b"x", [TRUE])])
        flt = [kT, kArr, kObj, star, other, node("a", c=[kArr]), node("a", c=[kObj])]
    for v1 in DUP_VALUES:
        for v2 in DUP_VALUES:
            sep = rng.choice([b",", b', "x":1,', b' ,"x" : [0] , '])
            v3 = rng.choice(DUP_VALUES)
            texts = [b'{"k":' + v1 + sep + b'"k":' + v2 + b"}",
                     b'[{"k":' + v1 + b',"k":' + v2 + b',"y":2}]',
                     b'{"k":' + v1 + b',"k":' + v2 + b',"k":' + v3 + b"}"]
            for t in texts:
                for f in flt:
                    out.append(line(t, o, lim=10, f=f, tag="dupkey"))
    return out


def gen_flat(o, sizes=(4, 600)):
    """Inputs that grow in LENGTH without growing in depth: many elements, members, string bytes, blanks and (when
    enabled) consecutive comments; the stack consumed must not depend on the size (tag: flat n=.. L=.. shape=..)."""
    out = []
    for n in sizes:
        shapes = {"elements": b"[" + b"1," * n + b"1]",
                  "members": b"{" + b",".join(b'"k%d":%d' % (i, i % 10) for i in range(n)) + b"}",
                  "nested-elements": b'{"a":[[' + b"true," * n + b"null]]}",
                  "string": b'"' + b"x" * n + b'"',
                  "blanks": b" \n" * n + b"[1]"}
        if o["comments"]:
            shapes["block-comments"] = b"/**/" * n + b"[1]"
            shapes["line-comments"] = b"//c\n" * n + b"1"
            shapes["comments-in-array"] = b"[" + b"/*x*/ " * n + b"1," + b"//y\n" * n + b"2]"
            shapes["comments-in-object"] = b'{"a"' + b"/**/" * n + b":" + b"/**/" * n + b"1}"
        for name, text in shapes.items():
            for f in (TRUE, FALSE):
                out.append(line(text, o, lim=10, f=f, tag=f"flat n={n} L=10 shape={name}"))
    return out


def gen_long_numbers(rng, n):
    """Valid RFC 8259 number literals of 50..63 characters (63 is the longest the reader accepts), as integers,
    fractions and exponent forms, at top level and inside containers; want = the literal itself."""
    out, wants = [], []
    for _ in range(n):
        L = rng.choice([50, 60, 61, 62, 63, 63, 63])
        kind = rng.randrange(4)
        if kind == 0:
            lit = "0." + "".join(rng.choice("0123456789") for _ in range(L - 3)) + rng.choice("123456789")
        elif kind == 1:
            lit = "-" + rng.choice("123456789") + "".join(rng.choice("0123456789") for _ in range(L - 6)) + ".5e1"
        elif kind == 2:
            lit = rng.choice("123456789") + "".join(rng.choice("0123456789") for _ in range(L - 5)) + "E-10"
        else:
            lit = rng.choice("123456789") + "." + "".join(rng.choice("0123456789") for _ in range(L - 2))
        assert len(lit) == L, (len(lit), L)
        v = node("#", lit.encode())
        ctx = rng.randrange(3)
        if ctx == 0:
            text, want = lit.encode(), v
        elif ctx == 1:
            text, want = b"[" + lit.encode() + b",1]", node("a", c=[v, node("#", b"1")])
        else:
            text, want = b'{"k":' + lit.encode() + b"}", node("o", c=[node("m", b"k", [v])])
        out.append(line(text, OPTS_FOR_LONG, lim=10, tag="longnumber"))
        wants.append(want)
    return out, wants


OPTS_FOR_LONG = dict(comments=False, nan=False, inf=False, unicode=True)


def gen_escape_offsets(o, maxoff=140):
    """\\u escapes (2-, 3-, 4-byte results, NUL, a named escape) at every offset of a string or key, so
    that the decoded bytes land on every position of the string buffer (which starts at 31 bytes and doubles)."""
    out = []
    escs = [b"\\u00e9", b"\\u20AC", b"\\ud83d\\ude00", b"\\u0000", b"\\n", b"\\u0041"]
    for off in range(maxoff + 1):
        for e in escs:
            body = b"a" * off + e + b"zz"
            out.append(line(b'"' + body + b'"', o, tag="escoff"))
            if off % 3 == 0:
                out.append(line(b'{"' + body + b'":[1,"' + body + b'"]}', o, tag="escoff"))
    return out


def gen_filtered(rng, o, n):
    use_options(o)
    out = []
    for _ in range(n):
        v = rand_value(rng)
        text = spell(rng, v, o["unicode"])
        out.append(line(text, o, lim=10, f=rand_filter(rng), tag="filter"))
    return out


def gen_depth(rng, o, limits=(0, 1, 2, 9, 10, 11, 127, 254, 255), big=5000):
    out = []
    # (the last one nests through the SECOND occurrence of a repeated key: the member that is overwritten)
    shapes = {"[": (b"[", b"]"), '{"a":': (b'{"a":', b"}"), "[{": None, '{"a":0,"a":': (b'{"a":0,"a":', b"}")}
    for L in limits:
        for n in sorted({L, L + 1, L + 2, big} if L < 200 else {L, L + 1, big}):
            if n == 0:
                continue
            for name, oc in shapes.items():
                if oc:
                    openers = oc[0] * n
                    text = openers + (b"1" if name != "[" else b"") + oc[1] * n
                else:
                    openers = b"".join(b'[' if i % 2 == 0 else b'{"k":' for i in range(n))
                    text = openers + b"0" + b"".join(b']' if i % 2 == 0 else b'}' for i in reversed(range(n)))
                for f in (TRUE, FALSE, node("o", c=[node("m", b"a", [FALSE])]), node("a", c=[FALSE])):
                    out.append(line(text, o, lim=L, f=f, tag=f"depth n={n} L={L} shape={name}"))
                    # unterminated variants: thousands of opening brackets only
                    out.append(line(openers, o, lim=L, f=f, tag=f"depth-open n={n} L={L} shape={name}"))
    return out


def gen_sessions(rng, o, n):
    """Documents written back to back with arbitrary whitespace between them."""
    out = []
    seps = [b"", b" ", b"\n", b"\r\n\t ", b"\n\n"]
    for _ in range(n):
        docs = []
        text = b""
        k = rng.randrange(1, 5)
        for j in range(k):
            v = rand_value(rng, 0, 2)
            s = spell(rng, v, o["unicode"])
            sep = rng.choice(seps)
            # two adjacent scalars without a separator are not two documents
            if text and sep == b"" and not (text[-1:] in b"]}\"" or s[:1] in b"[{\""):
                sep = b"\n"
            if text and sep == b"" and (text[-1:] not in b"]}\"" ) :
                sep = b" "
            text += sep + s
        text += rng.choice(seps)
        out.append(line(text, o, lim=10, tag="session", session=k + 1,
                        f=rand_filter(rng) if rng.random() < 0.3 else TRUE))
    return out


def write_feed(path, lines):
    with open(path, "w") as f:
        for ln in lines:
            f.write(json.dumps(ln) + "\n")
