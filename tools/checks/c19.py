"""C19  Capacity limits are clean edges and semantics do not depend on pool geometry.

(1) SlotPool.tla is model-checked over a geometry matrix including capacities that do not divide
2^Bits and inline pool counts that are not powers of two (NoWrap, CapacityBound, Accounting); the
arithmetic of the pinned tree before the fix (Legacy=TRUE) is kept in the spec and must still
produce its wrap-around counter-example (non-vacuity of NoWrap).
(2) The behaviours TLC generates from Document.tla are replayed on a matrix of build
configurations (slot id 1/2/4 bytes x pool capacity 2..256 x 1..4 inline pools x string length
1/2/4 bytes): identical observations below the limits (Document.tla has no geometry constants).
(3) Limit histories (harness/limits.cpp) per configuration, validated by LimitsTrace.tla, which
derives the expected counts from the geometry: exactly MaxSlots one-slot values, MaxSlots div 2
two-slot values / members, strings of MaxLen-1, MaxLen, MaxLen+1 bytes, MaxSlots users of one
shared string, deserialization of exactly MaxSlots and MaxSlots+1 elements; clean failure, document
intact, usable after removal and after clear(), nothing leaked."""
import os
import re

import vlib
from checks import doccommon as dc
from checks import doctrace, poolmc

# (SLOT_ID_SIZE, POOL_CAPACITY, INITIAL_POOL_COUNT, STRING_LENGTH_SIZE)
MATRIX_QUICK = [(1, 2, 1, 1), (1, 3, 4, 2), (1, 5, 3, 1), (1, 16, 4, 1), (1, 64, 4, 2), (2, 2, 2, 1),
                (2, 7, 1, 2), (2, 128, 4, 2), (4, 3, 3, 4), (4, 256, 4, 2)]
MATRIX_FULL = MATRIX_QUICK + [(1, 2, 3, 2), (1, 4, 2, 4), (1, 6, 4, 1), (1, 32, 1, 1), (2, 3, 3, 1), (2, 5, 4, 4),
                              (2, 16, 2, 1), (2, 256, 3, 2), (4, 2, 1, 1), (4, 5, 2, 2), (4, 16, 4, 4), (4, 128, 3, 1)]


def defs(g):
    return [f"ARDUINOJSON_SLOT_ID_SIZE={g[0]}", f"ARDUINOJSON_POOL_CAPACITY={g[1]}",
            f"ARDUINOJSON_INITIAL_POOL_COUNT={g[2]}", f"ARDUINOJSON_STRING_LENGTH_SIZE={g[3]}"]


def gname(g):
    return f"id{g[0]}c{g[1]}p{g[2]}l{g[3]}"


def run(tier):
    chk = vlib.Check("C19", tier)
    wd = vlib.workdir("C19")
    quick = tier == "quick"
    matrix = MATRIX_QUICK if quick else MATRIX_FULL
    specs = [dict(name=f"doc_replay-{gname(g)}", source="doc_replay.cpp", defines=defs(g)) for g in matrix]
    specs += [dict(name=f"limits-{gname(g)}", source="limits.cpp", defines=defs(g), opt="-O1") for g in matrix]
    bins = vlib.build_many(specs)
    replay_bins, limit_bins = bins[:len(matrix)], bins[len(matrix):]

    # (1) model level
    mm = [(c, i, 3) for c in (2, 3, 5) for i in (1, 3, 4)] if quick else \
         [(c, i, 3) for c in (1, 2, 3, 4, 5, 6, 7) for i in (1, 2, 3, 4)] + [(3, 4, 4), (5, 3, 4), (16, 4, 4), (6, 1, 4)]
    passed = poolmc.check_geometries(chk, wd, mm, False, 3 if quick else 2, 9, timeout=3000)
    # non-vacuity: the pinned arithmetic must be refuted by the same invariant
    cfg = os.path.join(wd, "legacy.cfg")
    vlib.write_cfg(cfg, constants={"PoolCap": 3, "InitPools": 1, "Bits": 3, "Legacy": "TRUE",
                                   "StrToks": vlib.tla_const({"a"}), "AllowFail": "FALSE", "MaxFree": 1,
                                   "MaxPoolsExplored": 9}, invariants=["Inv"], constraints=["Bound"])
    r = vlib.run_tlc("SlotPool", cfg, os.path.join(wd, "legacy"), timeout=600)
    legacy_refuted = r.violation == "property"
    if not legacy_refuted:
        raise vlib.InfraError("SlotPool.tla no longer refutes the legacy arithmetic: NoWrap is vacuous")
    chk.phase("tlc:SlotPool", configurations=passed, legacy_arithmetic_refuted=legacy_refuted)

    # (2) same behaviours on every configuration
    gens = [("full1", dc.mc_constants(1, 1, ["a", "b"], 1, 1, 2, 5, 3, "full", emitmod=2 if quick else 1)),
            ("two-docs", dc.mc_constants(2, 2, ["a"], 0, 1, 2, 4, 2, "tiny", emitmod=2 if quick else 1))]
    replayed = 0
    for name, consts in gens:
        r, nd, n = dc.generate(chk, name, consts, wd, check_props=False)
        if nd is None:
            continue
        chk.add_tlc(r)
        chk.phase(f"tlc:{name}", behaviours=n)
        for g, b in zip(matrix, replay_bins):
            lines, problems = dc.replay(chk, b, nd, f"{name}/{gname(g)}", parts=8)
            replayed += lines
            for what, beh in problems[:2]:
                chk.violation(what, beh)
        os.remove(nd)
    r, streams, n = dc.generate_feed(chk, "feed", wd, candidates=16000 if quick else 200000, procs=8)
    chk.add_tlc(r)
    chk.phase("tlc:feed", accepted_operations=n)
    for g, b in zip(matrix, replay_bins):
        lines, problems = dc.replay_streams(chk, b, streams, f"feed/{gname(g)}")
        replayed += lines
        for what, beh in problems[:2]:
            chk.violation(what, beh)
    for st in streams:
        os.remove(st)
    chk.cov["traces_validated_against_impl"] += replayed
    chk.cov["evaluations"] += replayed

    # (3) limit histories
    res = vlib.run_parallel([[b] for b in limit_bins], timeout=1500)
    scenarios = 0

    def validate_config(item):
        (rc, out), g = item
        label = gname(g)
        found = []
        if rc != 0 or '"e":"end"' not in out:
            return label, 0, [f"limit histories on {label}: harness died rc={rc}: {out[-1500:]}"], []
        lines = [l for l in out.splitlines() if l.startswith("{")]
        trace = os.path.join(wd, f"limits-{label}.ndjson")
        with open(trace, "w") as f:
            f.write("\n".join(lines) + "\n")
        ok, _, _ = doctrace.validate_trace(chk, trace, os.path.join(wd, "lim-" + label), label,
                                           module="LimitsTrace", timeout=300)
        if ok:
            return label, len(lines) - 2, [], lines
        # one rejection must not hide the other scenarios: validate them one by one
        for ln in lines[1:-1]:
            one = os.path.join(wd, f"limits-{label}-one.ndjson")
            with open(one, "w") as f:
                f.write(lines[0] + "\n" + ln + "\n")
            ok1, _, detail = doctrace.validate_trace(chk, one, os.path.join(wd, "lim1-" + label), label,
                                                     module="LimitsTrace", timeout=300)
            if not ok1:
                m = re.search(r'"scn":"([^"]+)"', ln)
                found.append(f"limit histories on {label}: scenario {m.group(1) if m else '?'}: {detail}")
        return label, len(lines) - 2, found, lines

    from concurrent.futures import ThreadPoolExecutor
    with ThreadPoolExecutor(max_workers=8) as ex:
        for label, n, found, lines in ex.map(validate_config, list(zip(res, matrix))):
            scenarios += n
            for what in found:
                chk.violation(what)
            chk.cov["traces_validated_against_impl"] += max(0, n - len(found))
            if lines:
                chk.sample({"config": label, "limit_events": lines[:3]}, maxn=3)
    chk.phase("limit-histories", configurations=len(matrix), scenarios=scenarios)
    chk.cov["evaluations"] += scenarios
    chk.cov["distinct_nontrivial"] = chk.cov["evaluations"]
    chk.cov["configurations"] = [gname(g) for g in matrix]
    chk.cov["rule"] = ("one evaluation = one TLC-generated behaviour replayed on one build configuration, or one "
                       "limit scenario on one configuration validated by LimitsTrace.tla")
    chk.assumptions += ["4-byte slot ids / string lengths: the limits themselves are not reachable, only the "
                        "below-limit equivalence is exercised",
                        "after shrinkToFit() (implicit after deserialization into a document) the ids of the released "
                        "tail of the last pool stay unusable, so the effective slot limit is lower by up to one pool "
                        "per shrink; limit histories do not shrink before filling, and configurations whose single "
                        "pool covers more than a quarter of the id space (e.g. 1-byte ids with capacity 128/256, where "
                        "the capacity does not even fit the SlotCount type) are left out of the matrix"]
    return chk.finish()
