"""C12  Numbers survive text: exact integers, bounded error, never a wrong magnitude.
NumbersTrace.tla (Focus C12) decides, from the SHAPE of a literal (sign, canonical digits and their comparison
with 2^64-1 / 2^63, number of significant digits, fraction / exponent, decimal magnitude), what must
happen: an integer literal in [-2^63, 2^64) parses to exactly that integer whatever its leading zeros (in a
document, and through as<T>() on a string); a literal of magnitude 1e-300..1e300 parses to a finite value
within 1e-6, within 1e-13 with more than seven significant digits; larger / smaller magnitudes give infinity
/ zero or a finite value of the right decimal exponent (on a build with ARDUINOJSON_USE_DOUBLE=0 the range is the
float's, 1e-37..1e38, and the bound is 1e-5: the property states none for that build).  The error is measured by the harness in quad
precision and arrives as a scaled integer.  Printing: every float bit pattern (quick: strided; thorough: all
2^32) must be printed within 1e-6*max(1,|x|) (logged as maximal runs); sampled doubles (powers of two and
ten, integer boundaries and neighbours, 20000 seeded values over all exponents) within 1e-9*max(1,|x|)."""
import json
import os
import random

import vlib
from checks import numbersgen, numcommon


def run(tier):
    chk = vlib.Check("C12", tier)
    wd = vlib.workdir("C12")
    quick = tier == "quick"
    b = numcommon.build()
    bf = numcommon.build(["ARDUINOJSON_USE_DOUBLE=0"], "numbers_record-float")   # single-precision storage
    ba = numcommon.build([], "numbers_record-arduino", arduino=True)            # tables in "program memory"
    rng = random.Random(vlib.seed())
    shapes = numbersgen.shapes(rng, 6000 if quick else 120000)
    jobs = []
    parts = 8
    for p in range(parts):
        sp = os.path.join(wd, f"shapes{p}.ndjson")
        with open(sp, "w") as f:
            for s in shapes[p::parts]:
                f.write(json.dumps(s) + "\n")
        out = os.path.join(wd, f"parse{p}.ndjson")
        jobs.append((f"parse{p}", [b, "parse", sp, out], out))
        if p % 2 == 0:
            outf = os.path.join(wd, f"parsef{p}.ndjson")
            jobs.append((f"parsef{p}", [bf, "parse", sp, outf], outf))
        else:
            outa = os.path.join(wd, f"parsea{p}.ndjson")
            jobs.append((f"parsea{p}", [ba, "parse", sp, outa], outa))
    stride = 4099 if quick else 1
    fparts = 4 if quick else 16
    span = 2**32 // fparts
    for p in range(fparts):
        out = os.path.join(wd, f"print{p}.ndjson")
        jobs.append((f"print{p}", [b, "print", out, str(stride), str(p * span), str((p + 1) * span - 1)], out))
    # printing on the single-precision build: a stride of the float patterns (the doubles are skipped: from > 0)
    outf = os.path.join(wd, "printf.ndjson")
    jobs.append(("printf", [bf, "print", outf, str(stride * 5 + 1), "1", str(2**32 - 1)], outf))
    # printing on the Arduino-style build: a stride of the float patterns and the sampled doubles
    outp = os.path.join(wd, "printa.ndjson")
    jobs.append(("printa", [ba, "print", outp, str(stride * 7 + 3), "0", str(2**32 - 1)], outp))
    good = numcommon.run_jobs(chk, jobs)
    # the doubles that are exactly representable as a float form the known finding class
    # "double-stored-as-float": they are validated separately so that they cannot hide anything else
    final = []
    for label, out in good:
        if label in ("print0", "printa"):
            keep, known = os.path.join(wd, f"{label}-main.ndjson"), os.path.join(wd, f"{label}-asfloat.ndjson")
            with open(out) as f, open(keep, "w") as k, open(known, "w") as kn:
                for line in f:
                    (kn if '"storedasfloat":true' in line else k).write(line)
            final.append((label, keep))
            ok, n, info, ev = numcommon.validate(chk, "C12", known, wd, f"{label}-asfloat")
            if not ok:
                chk.violation(f"double-stored-as-float: {info and info.get('why')} ; first event: {(ev or '')[:400]}", ev)
        else:
            final.append((label, out))
    n = numcommon.validate_all(chk, "C12", final, wd)
    with open(os.path.join(wd, "parse0.ndjson")) as f:
        chk.sample({"parse_event": f.readline().strip()[:500]})
    printed = 2**32 // stride
    chk.phase("numbers-trace-validation", events=n, literals=len(shapes), floats_printed=printed)
    chk.cov["evaluations"] = n + printed
    chk.cov["distinct_nontrivial"] = n + printed
    chk.cov["rule"] = ("one evaluation = one literal parsed (in a document when at most 63 characters, and through as<T>() on a "
                       "string), or one float / double printed and measured")
    chk.assumptions += ["errors are measured in __float128 (libquadmath) against strtoflt128 of the literal; TLC applies the bound",
                        "for the float sweep the bound is applied by the harness per value and only the maximal runs are logged",
                        "outside [1e-300, 1e300] a finite result is accepted when its decimal exponent is right within one"]
    return chk.finish()
