"""Seeded random candidate operations for spec/DocumentFeed.tla (the feed only CHOOSES
operations; legality, effects and expected observations all come from the specification)."""
import json
import random

KEYS = ["a", "b", "c", ""]
STRS = ["a", "b", "hello", "", "x y", "42", "1.5", "true"]
INTS = ["0", "1", "-1", "42", "255", "256", "-129", "65536", "2147483647", "2147483648", "-2147483649",
        "4294967296", "9223372036854775807", "9223372036854775808", "-9223372036854775808",
        "18446744073709551615", "1099511627776"]
FLTS = ["1.5", "-0.25", "3.25", "0.5", "0.1", "-2.5"]
RAWS = ["[7]", "{}", "1e5", "x"]


def node(t, s="", c=None):
    return {"t": t, "s": s, "c": c or []}


def scalar(rng):
    k = rng.randrange(8)
    if k == 0:
        return node("n")
    if k == 1:
        return node("b", rng.choice(["true", "false"]))
    if k in (2, 3):
        return node("i", rng.choice(INTS))
    if k == 4:
        return node("f", rng.choice(FLTS))
    if k == 5:
        return node("r", rng.choice(RAWS))
    s = rng.choice(STRS)
    # "l": kept by address (string literal / const char* / JsonString(Linked)); "s": given through a copying kind
    return node("l" if "%00" not in s and rng.random() < 0.4 else "s", s)


def rand_json(rng, depth=0):
    """(model value, JSON text) for deserialization inputs; floats are exactly representable."""
    k = rng.randrange(5 if depth >= 3 else 8)
    if k in (5, 6):
        n = rng.randrange(4)
        kids = [rand_json(rng, depth + 1) for _ in range(n)]
        sep = rng.choice([",", " , ", ",\n"])
        return node("a", "", [v for v, _ in kids]), "[" + sep.join(t for _, t in kids) + "]"
    if k == 7:
        n = rng.randrange(4)
        keys = rng.sample([x for x in KEYS if "%" not in x], min(n, len([x for x in KEYS if "%" not in x])))
        ms, parts = [], []
        for key in keys:
            v, t = rand_json(rng, depth + 1)
            ms.append(node("m", key, [v]))
            parts.append(json.dumps(key) + rng.choice([":", " : "]) + t)
        return node("o", "", ms), "{" + ",".join(parts) + "}"
    if k == 0:
        return node("n"), "null"
    if k == 1:
        b = rng.choice(["true", "false"])
        return node("b", b), b
    if k == 2:
        s = rng.choice(INTS)
        return node("i", s), s
    if k == 3:
        s = rng.choice(FLTS[:4])
        return node("f", s), s
    s = rng.choice([x for x in STRS if "%" not in x])
    return node("s", s), json.dumps(s)


def path(rng, maxlen=2):
    p = []
    for _ in range(rng.randrange(maxlen + 1)):
        if rng.random() < 0.6:
            p.append({"k": rng.choice(KEYS), "i": -1})
        else:
            p.append({"k": "", "i": rng.randrange(4)})
    return p


def base(rng, nd, nr):
    if rng.random() < 0.4:
        return "r", rng.randrange(1, nr + 1)
    return "d", rng.randrange(1, nd + 1)


NAMES = (["set"] * 4 + ["to"] * 2 + ["add"] * 4 + ["addnew"] * 3 + ["bind"] * 3 + ["rmidx"] * 2 + ["rmkey"] * 2 +
         ["copy"] * 3 + ["setprefix"] * 2 + ["docset", "docsetv", "docto", "docclear", "shrink", "assign", "move", "swap"] + ["deser"] * 2)


def rand_op(rng, nd, nr):
    o = {"op": rng.choice(NAMES), "tb": "", "ti": 0, "tp": [], "v": node("n"), "sb": "", "si": 0, "sp": [],
         "r": 0, "i": 0, "k": "", "x": ""}
    o["tb"], o["ti"] = base(rng, nd, nr)
    o["tp"] = path(rng)
    op = o["op"]
    if op in ("set", "add"):
        o["v"] = scalar(rng)
    elif op in ("to", "addnew", "docto"):
        o["v"] = node(rng.choice("nao"))
        o["r"] = rng.randrange(nr + 1)
    elif op == "bind":
        o["r"] = rng.randrange(1, nr + 1)
    elif op == "rmidx":
        o["i"] = rng.randrange(4)
    elif op == "rmkey":
        o["k"] = rng.choice(KEYS)
    elif op in ("copy", "docset", "setprefix"):
        o["sb"], o["si"] = base(rng, nd, nr)
        o["sp"] = path(rng)
        if op == "setprefix":
            o["i"] = rng.randrange(4)
    elif op == "docsetv":
        o["v"] = scalar(rng)
    elif op == "deser":
        o["v"], o["x"] = rand_json(rng)
    if op in ("docset", "docsetv", "docto", "docclear", "shrink", "assign", "move", "swap"):
        o["tb"], o["ti"], o["tp"] = "d", rng.randrange(1, nd + 1), []
    if op in ("assign", "move", "swap"):
        o["sb"], o["si"] = "d", rng.randrange(1, nd + 1)
    return o


def set_profile(profile):
    """'strings': string-heavy alphabets for C14 (keys that are prefixes of one another, NUL inside,
    bytes >= 0x80, numeric-looking strings)."""
    global KEYS, STRS
    if profile == "strings":
        KEYS = ["a", "ab", "a%00b", ""]
        STRS = ["a", "ab", "", "42", "1.5", "-3e2", "a%00b", "%80%FF", "a", "42"]


def write_feed(path_, seed, candidates, nd=2, nr=3, run_len=60, profile=None):
    if profile:
        set_profile(profile)
    rng = random.Random(seed)
    n = 0
    with open(path_, "w") as f:
        while n < candidates:
            f.write(json.dumps({"e": "reset", "nd": nd, "nr": nr}) + "\n")
            n += 1
            for _ in range(rng.randrange(run_len // 2, run_len)):
                f.write(json.dumps({"e": "op", "op": rand_op(rng, nd, nr)}) + "\n")
                n += 1
    return n
