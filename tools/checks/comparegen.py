"""Value table for C18: every kind and storage at boundary values.  Numbers carry two ranks computed with
exact arithmetic: `ex` (order of the exact values, used when both operands are integers) and `dr` (order
after conversion to double, used as soon as one operand is a floating-point value), which is all
Compare.tla needs to know about them."""
import json
import struct
from fractions import Fraction


def f32(x):
    return struct.unpack(">f", struct.pack(">f", x))[0]


def numbers():
    out = []

    def add(name, store, value):
        out.append({"name": name, "kind": "int" if store in ("i", "u") else "flt", "store": store, "value": value})
    ints = [0, 1, -1, 2, 127, 2**31 - 1, 2**31, -2**31, -2**31 - 1, 2**32 - 1, 2**32, 2**53, 2**53 + 1, 2**63 - 1, 2**63,
            2**64 - 1, -2**63, -2**53 - 1, 42]
    for n in ints:
        add(f"int {n}", "u" if n >= 2**63 else "i", n)
    for x in [0.0, -0.0, 1.0, 1.5, -1.5, 0.1, 2.0**31, 2.0**53, 2.0**63, 2.0**64, -2.0**63, 42.0, 1e300, -1e300, 2.5e-300]:
        add(f"double {x!r}", "d", x)
    for x in [0.0, 1.0, 1.5, 0.1, 2.0**31, 42.0, 3.4028234663852886e38]:
        add(f"float {f32(x)!r}", "f", f32(x))
    exact = sorted({Fraction(n["value"]) for n in out})
    dbl = sorted({float(n["value"]) for n in out})
    for n in out:
        n["ex"] = exact.index(Fraction(n["value"]))
        n["dr"] = dbl.index(float(n["value"]))
        v = n.pop("value")
        n["lit"] = repr(v) if isinstance(v, float) else str(v)
    return out


def table():
    vals = []

    def add(**kw):
        kw.setdefault("b", [])
        kw.setdefault("c", [])
        kw.setdefault("keys", [])
        kw.setdefault("ex", -1)
        kw.setdefault("dr", -1)
        kw.setdefault("store", "")
        kw.setdefault("lit", "")
        vals.append(kw)
        return len(vals)          # 1-based index
    add(kind="null", name="null")
    add(kind="unbound", name="unbound")
    add(kind="bool", name="true", ex=1)
    add(kind="bool", name="false", ex=0)
    num_index = {}
    for n in numbers():
        num_index[n["name"]] = add(**n)
    for s, store in [(b"", "copied"), (b"a", "copied"), (b"a", "linked"), (b"ab", "copied"), (b"a\x00b", "copied"),
                     (b"b", "linked"), (b"\x80\xff", "copied"), (b"42", "copied"), (b"null", "linked")]:
        add(kind="str", name=f"str {s!r} {store}", b=list(s), store=store)
    for s in [b"ab", b"abc", b"a", b"42", b""]:
        add(kind="raw", name=f"raw {s!r}", b=list(s))
    one_i = num_index["int 1"]
    one_d = num_index["double 1.0"]
    two_i = num_index["int 2"]
    a_c = [i + 1 for i, v in enumerate(vals) if v["kind"] == "str" and v["b"] == [97] and v["store"] == "copied"][0]
    e_arr = add(kind="arr", name="[]")
    a1 = add(kind="arr", name="[1]", c=[one_i])
    add(kind="arr", name="[1.0]", c=[one_d])
    add(kind="arr", name="[1,2]", c=[one_i, two_i])
    add(kind="arr", name="[2,1]", c=[two_i, one_i])
    add(kind="arr", name="[[1]]", c=[a1])
    add(kind="arr", name='["a"]', c=[a_c])
    add(kind="arr", name="[null]", c=[1])
    e_obj = add(kind="obj", name="{}")
    add(kind="obj", name="{a:1}", c=[one_i], keys=[[97]])
    add(kind="obj", name="{a:1.0}", c=[one_d], keys=[[97]])
    add(kind="obj", name="{a:1,b:2}", c=[one_i, two_i], keys=[[97], [98]])
    add(kind="obj", name="{b:2,a:1}", c=[two_i, one_i], keys=[[98], [97]])
    add(kind="obj", name="{a:1,b:1}", c=[one_i, one_i], keys=[[97], [98]])
    add(kind="obj", name="{b:1}", c=[one_i], keys=[[98]])
    add(kind="obj", name="{a:{}}", c=[e_obj], keys=[[97]])
    add(kind="obj", name="{a:[]}", c=[e_arr], keys=[[97]])
    # null-valued members versus absent keys
    add(kind="obj", name="{a:null}", c=[1], keys=[[97]])
    add(kind="obj", name="{b:null}", c=[1], keys=[[98]])
    add(kind="obj", name="{a:null,b:1}", c=[1, one_i], keys=[[97], [98]])
    add(kind="obj", name="{b:1,c:2}", c=[one_i, two_i], keys=[[98], [99]])
    add(kind="obj", name="{b:1,a:null}", c=[one_i, 1], keys=[[98], [97]])
    add(kind="arr", name="[{a:null}]", c=[len(vals) - 4])
    add(kind="arr", name="[{b:null}]", c=[len(vals) - 4])
    add(kind="arr", name="[null,1]", c=[1, one_i])
    add(kind="arr", name="[1]-again", c=[one_i])
    return vals


if __name__ == "__main__":
    print(json.dumps(table(), indent=1))
