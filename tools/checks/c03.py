"""C03  Deserializers are memory-safe, input-bounded and source-independent on any bytes.
The specifications (JsonReader.tla, MsgPack.tla) say, for ANY byte sequence, which code comes back, which
document results and how many bytes may be taken from the input.  Seeded truncations, substitutions,
deletions, insertions, random bytes and trailing garbage (plus the bounded-exhaustive alphabets) are given
to the library through every input kind: zero-terminated pointer, pointer+size (exact-size heap blocks
without terminator, so that ASan sees any over-read), std::string, string_view, std::istream, byte-wise and
block-wise custom readers (reads counted), char*, unsigned char*, a variant holding a string, and the
Arduino String / Stream / flash fakes.  Code, document and consumed bytes must be identical across kinds and
equal to the specification's; afterwards the document is inspected, serialized (JSON and MessagePack),
cleared and reused; the memory requested is bounded linearly in the input size.  Builds: slot id 1/2/4
bytes, string length 1/2/4 bytes, comments/NaN/Infinity on, unicode off."""
import os
import random

import vlib
from checks import readerchecks as rk
from checks import readercommon as rc
from checks import readergen as rg
from checks import msgpackcommon as mp


def run(tier):
    chk = vlib.Check("C03", tier)
    wd = vlib.workdir("C03")
    quick = tier == "quick"
    D, A, U = rc.OPTS_DEFAULT, rc.OPTS_ALL, rc.OPTS_NOUNI
    small = ["ARDUINOJSON_SLOT_ID_SIZE=1", "ARDUINOJSON_STRING_LENGTH_SIZE=1", "ARDUINOJSON_POOL_CAPACITY=4"]
    mid = ["ARDUINOJSON_SLOT_ID_SIZE=2", "ARDUINOJSON_STRING_LENGTH_SIZE=2", "ARDUINOJSON_POOL_CAPACITY=16"]
    big = ["ARDUINOJSON_SLOT_ID_SIZE=4", "ARDUINOJSON_STRING_LENGTH_SIZE=4"]
    variants = [("def", D, [], False), ("arduino", D, [], True), ("small", D, small, False), ("mid", D, mid, False),
                ("big", D, big, False), ("all", A, [], False), ("nouni", U, [], False),
                ("debug", D, ["ARDUINOJSON_DEBUG=1"], False)]   # the library's internal assertions turned on
    bins = rk.build_readers(variants)
    rng = random.Random(vlib.seed())
    n = 4000 if quick else 60000
    for o, labels in ((D, ["def", "arduino", "small", "mid", "big", "debug"]), (A, ["all"]), (U, ["nouni"])):
        lines = rg.gen_mutants(rng, o, n if o == D else n // 3)
        wants = []
        lines += rg.gen_valid(rng, o, n // 4, wants)
        lines += rg.gen_long_tokens(rng, o, n // 4)
        if o["unicode"]:
            lines += rg.gen_escape_offsets(o, 70)
        rk.run_feed(chk, wd, f"json-{rc.opt_name(o)}", lines, None, [(l, bins[l]) for l in labels])
    # strings and keys around the longest string a build can store (255 bytes with 1-byte lengths)
    rk.run_feed(chk, wd, "json-longstrings", rg.gen_long_strings(rng, D, 255, 300 if quick else 4000), None,
                [("small", bins["small"])])
    # inputs that need about as many slots as the build can address (255 ids with 1-byte slot ids)
    rk.run_feed(chk, wd, "json-slotlimit", rg.gen_slot_limit(rng, D, 255, 120 if quick else 2000), None,
                [("small", bins["small"])])
    rk.run_mc(chk, wd, rk.group_by_opts(bins, variants[:2]), [("chars", "chars", 4, [0, 1, 10], "none", D)])
    # MessagePack: every encoding, prefix, corruption and random bytes (bounded kinds only)
    mp.run_msgpack_feed(chk, wd, "msgpack", rng, n, [(l, bins[l]) for l in ["def", "arduino", "small", "mid", "big", "debug"]],
                        corrupt=True)
    # MessagePack under arbitrary filter documents (string and number leaves, nested shapes that disagree with the input)
    from checks import msgpackgen as mg
    flines = mg.gen_filtered(rng, n // 4)
    r, fcases, nf = mp.feed_cases(chk, "msgpack-filtered", wd, flines)
    chk.add_tlc(r)
    for l in ("def", "arduino"):
        ran, evals, problems, _ = rc.replay_cases(chk, bins[l], fcases, f"msgpack-filtered/{l}")
        chk.cov["traces_validated_against_impl"] += ran
        chk.cov["evaluations"] += evals
        for what, case in problems[:3]:
            chk.violation(what, case)
    chk.phase("feed:msgpack-filtered", lines=nf)
    os.remove(fcases)
    return rk.finish(chk, "one evaluation = one byte string (with a nesting limit and possibly a filter) through one "
                          "input kind on one build; code, document, bytes consumed, post-conditions and memory bound "
                          "checked", rk.COMMON_ASSUMPTIONS + [
        "small configurations legitimately return NoMemory where larger ones return Ok (strings longer than the "
        "configured maximum, more slots than ids): such cases are generated within the small limits",
        "memory bound used: sizeofString(min(maxLength, 100 MB)) + 40 bytes per input byte + 4 pools + 4 KiB (the instrumented allocator refuses single blocks above 100 MB)"])
