"""C02 / C08 / C07: record the serializers' outputs (harness/writer_record.cpp) and validate them with
TLC against spec/WriterTrace.tla, each check deciding only its own clauses (constant Focus)."""
import json
import os
import random
import re
from concurrent.futures import ThreadPoolExecutor

import vlib
from checks import writergen as wg


def run(pid, tier, rule, assumptions):
    chk = vlib.Check(pid, tier)
    wd = vlib.workdir(pid)
    quick = tier == "quick"
    flags = dict(std="gnu++17", extra=["-fext-numeric-literals", "-lquadmath"])
    bins = vlib.build_many([
        dict(name="writer_record-def", source="writer_record.cpp", **flags),
        dict(name="writer_record-arduino", source="writer_record.cpp", std="gnu++17",
             extra=["-fext-numeric-literals", "-lquadmath", "-include", "Arduino.h"]),
        dict(name="writer_record-g2", source="writer_record.cpp",
             defines=["ARDUINOJSON_POOL_CAPACITY=2", "ARDUINOJSON_INITIAL_POOL_COUNT=1"], **flags),
    ])
    rng = random.Random(vlib.seed())
    docs = wg.gen_docs(rng, 700 if quick else 60000) + wg.gen_bulk()
    # C02 and C07 also on a build that stores floating-point values in single precision (ARDUINOJSON_USE_DOUBLE=0): the
    # doubles of these documents are exactly representable as floats, so the text still has to denote them
    fdocs, fbin = [], None
    if pid in ("C02", "C07"):
        fbin = vlib.build("writer_record-nodouble", "writer_record.cpp", defines=["ARDUINOJSON_USE_DOUBLE=0"], **flags)
        fdocs = [d for d in wg.gen_docs(rng, 300 if quick else 12000, f64_as_float=True) if d.get("cls") != "mpraw"]
    parts = 12
    chunks = [docs[i::parts] for i in range(parts)]
    jobs = []
    for i, ch in enumerate(chunks):
        dp = os.path.join(wd, f"docs{i}.ndjson")
        wg.write_docs(dp, ch)
        b = bins[i % len(bins)]
        jobs.append((dp, os.path.join(wd, f"rec{i}.ndjson"), b))
    if fbin:
        fchunks = [fdocs[i::3] for i in range(3)]
        for i, ch in enumerate(fchunks):
            dp = os.path.join(wd, f"fdocs{i}.ndjson")
            wg.write_docs(dp, ch)
            jobs.append((dp, os.path.join(wd, f"frec{i}.ndjson"), fbin))
    if pid in ("C08", "C02"):
        # a build whose JsonInteger is long (ARDUINOJSON_USE_LONG_LONG=0; 64 bits on this platform): the integer
        # visitors of both serializers take other branches
        lbin = vlib.build("writer_record-nolonglong", "writer_record.cpp", defines=["ARDUINOJSON_USE_LONG_LONG=0"], **flags)
        def small_ints(v):      # that build stores integers in 32 bits only: larger ones cannot be set at all
            if v["t"] == "i+":
                return int.from_bytes(bytes(v["b"]), "big") < 2**32
            if v["t"] == "i-":
                return int.from_bytes(bytes(v["b"]), "big") >= 2**64 - 2**31
            return all(small_ints(c) for c in v["c"])
        ldocs = [d for d in wg.gen_docs(rng, 300 if quick else 8000) if d.get("cls") == "plain" and small_ints(d["v"])]
        dp = os.path.join(wd, "ldocs.ndjson")
        wg.write_docs(dp, ldocs)
        jobs.append((dp, os.path.join(wd, "lrec.ndjson"), lbin))
    res = vlib.run_parallel([[b, dp, out, str(vlib.seed())] for dp, out, b in jobs], timeout=900)
    good = []
    for (rc, txt), (dp, out, b) in zip(res, jobs):
        if rc != 0 or "SUMMARY" not in txt:
            m = re.search(r"idx=(\d+)", txt)
            doc = None
            if m:
                with open(dp) as f:
                    lines = f.readlines()
                doc = lines[int(m.group(1))][:3000] if int(m.group(1)) < len(lines) else None
            chk.violation(f"serializer run {os.path.basename(b)} crashed or failed rc={rc}: {txt[-1500:]}", doc)
            continue
        good.append(out)

    def validate(out):
        sub = os.path.join(wd, "v-" + os.path.basename(out))
        os.makedirs(sub, exist_ok=True)
        cfg = os.path.join(sub, "WriterTrace.cfg")
        vlib.write_cfg(cfg, spec="TraceSpec", constants={"MaxStrLen": 2000000000, "Focus": vlib.tla_const(pid)},
                       postcondition="Accepted")
        r = vlib.run_tlc("WriterTrace", cfg, sub, workers=1, timeout=1500, env={"TRACE": out}, heap="4g")
        txt = vlib._tail(r.out_path, 200000)
        m = re.search(r'<<"TRACE-DEPTH", (-?\d+), (\d+)>>', txt)
        if not m:
            raise vlib.InfraError(f"WriterTrace did not finish on {out}: {vlib.tlc_error_excerpt(r)}")
        depth, total = int(m.group(1)), int(m.group(2))
        rej = re.search(r'<<"REJECT", (".*")>>', txt)
        return out, r, depth, total, json.loads(rej.group(1)) if rej else None
    total_docs = 0
    with ThreadPoolExecutor(max_workers=12) as ex:
        for out, r, depth, total, rej in ex.map(validate, good):
            chk.add_tlc(r)
            if depth != total:
                with open(out) as f:
                    lines = f.readlines()
                ev = lines[depth] if depth < len(lines) else ""
                try:
                    e = json.loads(ev)
                    brief = {"cls": e.get("cls"), "v": json.dumps(e.get("v"))[:600],
                             "json": bytes(e.get("json", []))[:200].decode("latin-1")}
                except Exception:
                    brief = ev[:600]
                chk.violation(f"recorded serializer output rejected by WriterTrace.tla: {rej} ; document: {brief}", ev[:20000])
            else:
                total_docs += total
                chk.cov["traces_validated_against_impl"] += 1
            if len(chk.cov["samples"]) < 2:
                with open(out) as f:
                    e = json.loads(f.readline())
                chk.sample({"v": json.dumps(e.get("v"))[:300], "json": bytes(e.get("json", []))[:120].decode("latin-1"),
                            "msgpack": bytes(e.get("mp", []))[:40].hex()})
    chk.phase("writer-trace-validation", documents=total_docs, traces=len(good))
    chk.cov["evaluations"] = total_docs
    chk.cov["distinct_nontrivial"] = total_docs
    chk.cov["rule"] = rule
    chk.assumptions += assumptions + [
        "documents are chosen by a seeded generator plus a directed list (all 256 byte values in strings and keys, "
        "boundary integers and floats, sizes around 31/32, 255/256, 15/16, 65535/65536, depth up to 50)",
        "documents around the 16-bit boundaries are too large for TLC's sequence operators: their header comes from the "
        "specification, their payload is compared by the harness",
        "floating-point printing error and the facts about each float encoding (kind, exactness, integral, range) are MEASURED by the harness (libquadmath, its own integer decoder); TLC applies the bound and the encoding rule"]
    return chk.finish()
