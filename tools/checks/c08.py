"""C08  serializeMsgPack emits one conforming MessagePack object equal to the document (WriterTrace.tla with
Focus = "C08": MsgPack.tla's decoder - the definition of the format - accepts the bytes as exactly one
object equal to the document; floats bit-exact or an integer encoding of an integral value; counts,
measureMsgPack, buffer law; string / array / map headers the narrowest for their length (TightHeaders), the
16-bit boundaries of bulk documents from the specification's ladder)."""
from checks import writercommon


def run(tier):
    return writercommon.run("C08", tier,
                            "one evaluation = one document serialized to MessagePack on every destination kind and "
                            "every buffer capacity, validated by WriterTrace.tla (Focus C08)",
                            ["string, array and map headers must be the narrowest that hold the length (TightHeaders: the header "
                             "changes exactly at 31/32, 255/256, 65535/65536 resp. 15/16, 65535/65536, as the property lists); "
                             "the WIDTH of an integer encoding is not judged (the property asks for value and sign only)"])
