"""C08  serializeMsgPack emits one conforming MessagePack object equal to the document (WriterTrace.tla with
Focus = "C08": MsgPack.tla's decoder - the definition of the format - accepts the bytes as exactly one
object equal to the document; floats bit-exact or an integer encoding of an integral value; counts,
measureMsgPack, buffer law; header widths at the 16-bit boundaries from the specification's ladder)."""
from checks import writercommon


def run(tier):
    return writercommon.run("C08", tier,
                            "one evaluation = one document serialized to MessagePack on every destination kind and "
                            "every buffer capacity, validated by WriterTrace.tla (Focus C08)",
                            ["equality with the minimal-width encoding Canon(v) is not required (a wider legal header "
                             "would still satisfy C08)"])
