"""C05  Allocation failure is reported and never corrupts the document.

Model level: SlotPool.tla with AllowFail=TRUE: every allocator call of every action may fail, in
every interleaving; Accounting, NoWrap, RefCount hold in every state (no slot both in use and free,
pool entries of failed allocations are harmless).
Implementation level: for every TLC-generated behaviour, the last operation is executed with a
failure at its k-th allocator call and from its k-th call on, for every k (the fault-free run counts
the calls), plus random failure subsets over the whole behaviour (each operation of such a run is executed
only while it still satisfies Document!Legal in the state actually reached: a failed add() shifts what the
later operations address, and an operation that has become an overlapping copy or a use of a dangling
reference is outside the quantifier (harness/common/concretelegal.hpp)); the observations are validated by
TLC against FaultTrace.tla (postcondition form, evaluated on the abstract state Document!Step gives
for the fault-free prefix): reported, overflowed(), well formed, values outside the modified path
unchanged, references outside it still designate their value, nothing allocated after clear(), the
document works after clear(), nothing leaked or released through a foreign allocator.
Deserializers: inputs whose fault-free result JsonReader.tla / MsgPack.tla computed (valid and malformed
JSON texts, MessagePack encodings, strings that repeat and then grow) are read with a failure at every
allocator call; the events ("rfault") are judged by the same FaultTrace.tla."""
import os
from concurrent.futures import ThreadPoolExecutor

import random

import vlib
from checks import doccommon as dc
from checks import doctrace, poolmc
from checks import readercommon as rc
from checks import readergen as rg
from checks import readerchecks as rk
from checks import msgpackcommon as mc
from checks import msgpackgen as mg


def reader_faults(chk, wd, quick):
    """deserializeJson / deserializeMsgPack under a failure at every allocator call."""
    rng = random.Random(vlib.seed() + 505)
    D = rc.OPTS_DEFAULT
    variants = [("def", D, [], False), ("small", D, ["ARDUINOJSON_STRING_LENGTH_SIZE=1", "ARDUINOJSON_SLOT_ID_SIZE=1"], False)]
    bins = rk.build_readers(variants)
    nj, nm = (220, 260) if quick else (3000, 3000)
    wants = []
    jl = rg.gen_valid(rng, D, nj, wants)
    jw = dict(enumerate(wants))
    jl += rg.gen_mutants(rng, D, nj // 3)
    jl += [dict(l, f=rg.rand_filter(rng)) for l in rg.gen_valid(rng, D, nj // 4, [])]
    r, jcases, _ = rc.feed_cases(chk, "rfault-json", wd, jl, jw)
    chk.add_tlc(r)
    wants = []
    ml = mg.gen_string_reuse(rng, nm // 2, wants)
    ml += mg.gen_valid(rng, nm // 2, wants)
    mw = dict(enumerate(wants))
    ml += mg.gen_prefixes_and_corruptions(rng, nm // 4)
    r, mcases, _ = mc.feed_cases(chk, "rfault-msgpack", wd, ml, mw)
    chk.add_tlc(r)
    events = fired = 0
    jobs = []
    for cases in (jcases, mcases):
        parts = vlib.split_file(cases, 8)
        os.remove(cases)
        for pi, part in enumerate(parts):
            for label in ("def", "small"):
                if label == "small" and cases is jcases and pi % 2:
                    continue
                out = os.path.join(wd, f"rfault-{os.path.basename(part)}-{label}.ndjson")
                jobs.append((label, part, out, [bins[label], part, str(vlib.seed()), "--faults", out,
                                                "40" if quick else "400"]))
    res = vlib.run_parallel([j[3] for j in jobs], timeout=1500)
    good = []
    for (rcode, txt), (label, part, out, cmd) in zip(res, jobs):
        summ = [l for l in txt.splitlines() if l.startswith("SUMMARY")]
        if rcode != 0 or not summ:
            crash = [l for l in txt.splitlines() if l.startswith("CRASH")]
            case = None
            if crash:
                try:
                    idx = int(crash[0].split("idx=")[1].split()[0])
                    with open(part) as f:
                        for i, l in enumerate(f):
                            if i == idx:
                                case = l.strip()
                except (ValueError, IndexError):
                    pass
            chk.violation(f"reader-faults/{label}: deserialization under an allocation failure crashed or aborted "
                          f"rc={rcode}: {(crash[0] if crash else '')} {txt[-1500:]}", case)
            continue
        kv = vlib.kvs(summ[0])
        events += int(kv["events"])
        fired += int(kv["fired"])
        good.append((label, out))

    def validate(item):
        label, out = item
        return item, doctrace.validate_trace(chk, out, os.path.join(wd, "v-" + os.path.basename(out)),
                                             f"reader-faults/{label}", module="FaultTrace", timeout=1500)
    with ThreadPoolExecutor(max_workers=8) as ex:
        for (label, out), (ok, nlines, detail) in ex.map(validate, good):
            if not ok:
                ok2, _, detail2 = doctrace.validate_trace(chk, out, os.path.join(wd, "v2-" + os.path.basename(out)),
                                                          f"reader-faults/{label}(recheck)", module="FaultTrace",
                                                          timeout=1500)
                if not ok2:
                    chk.violation(detail2)
                    continue
            chk.cov["traces_validated_against_impl"] += 1
            os.remove(out)
    for j in jobs:
        if os.path.exists(j[1]):
            os.remove(j[1])
    chk.phase("faults:deserializers", json_inputs=len(jl), msgpack_inputs=len(ml), events=events, fired=fired)
    return events, fired


def run(tier):
    chk = vlib.Check("C05", tier, level="model_checking")
    wd = vlib.workdir("C05")
    quick = tier == "quick"
    geoms = ["g2x1s1", "g3x2s1", "default"] if quick else ["g2x1s1", "g3x2s1", "g4x4s2", "default"]
    bins = vlib.build_many([dict(name=f"doc_fault-{g}", source="doc_fault.cpp", defines=dc.geom_defines(g))
                            for g in geoms])
    passed = poolmc.check_geometries(chk, wd, [(2, 1, 3), (3, 2, 3)] if quick else
                                     [(c, i, 3) for c in (1, 2, 3, 5) for i in (1, 2, 4)], True, 3, 6)
    chk.phase("tlc:SlotPool(AllowFail)", configurations=passed)

    gens = [("full1", dc.mc_constants(1, 1, ["a", "b"], 1, 1, 2, 5, 3, "full", emitmod=4 if quick else 1)),
            ("tiny-deep", dc.mc_constants(1, 1, ["a"], 1, 1, 3, 4, 2, "tiny", emitmod=6 if quick else 1)),
            ("two-docs", dc.mc_constants(2, 2, ["a"], 0, 1, 2, 4, 2, "tiny", emitmod=3 if quick else 1))]
    events_total = 0
    fired_total = 0
    chaos = {"chaos_runs": 0, "chaos_ops": 0, "chaos_truncated": 0}
    for name, consts in gens:
        r, nd, n = dc.generate(chk, name, consts, wd, check_props=False)
        if nd is None:
            continue
        chk.add_tlc(r)
        parts = vlib.split_file(nd, 8)
        os.remove(nd)
        jobs = []
        for gi, (g, b) in enumerate(zip(geoms, bins)):
            for pi, part in enumerate(parts):
                if quick and (pi % len(geoms)) != gi:
                    continue  # quick: each chunk on one geometry
                out = os.path.join(wd, f"{name}-{g}-{pi}.fault.ndjson")
                jobs.append((g, part, out, [b, part, str(vlib.seed()), out]))
        res = vlib.run_parallel([j[3] for j in jobs], timeout=1500)
        good = []
        for (rc, txt), (g, part, out, cmd) in zip(res, jobs):
            summ = [l for l in txt.splitlines() if l.startswith("SUMMARY")]
            if rc != 0 or not summ:
                crash = [l for l in txt.splitlines() if l.startswith("CRASH")]
                beh = None
                if crash:
                    try:
                        idx = int(crash[0].split("idx=")[1].split()[0])
                        with open(part) as f:
                            for i, l in enumerate(f):
                                if i == idx:
                                    beh = l.strip()
                    except (ValueError, IndexError):
                        pass
                chk.violation(f"{name}/{g}: fault-injection run crashed or aborted rc={rc}: "
                              f"{(crash[0] if crash else '')} {txt[-1800:]}", beh)
                continue
            kv = vlib.kvs(summ[0])
            events_total += int(kv["events"])
            fired_total += int(kv["fired"])
            for key in chaos:
                chaos[key] += int(kv.get(key, 0))
            good.append((g, out))

        def validate(item):
            g, out = item
            return item, doctrace.validate_trace(chk, out, os.path.join(wd, "v-" + os.path.basename(out)),
                                                 f"{name}/{g}", module="FaultTrace", timeout=1500)
        with ThreadPoolExecutor(max_workers=8) as ex:
            for (g, out), (ok, nlines, detail) in ex.map(validate, good):
                if not ok:
                    ok2, _, detail2 = doctrace.validate_trace(chk, out, os.path.join(wd, "v2-" + os.path.basename(out)),
                                                              f"{name}/{g}(recheck)", module="FaultTrace", timeout=1500)
                    if not ok2:
                        chk.violation(detail2)
                        continue
                chk.cov["traces_validated_against_impl"] += 1
                if len(chk.cov["samples"]) < 3:
                    with open(out) as f:
                        chk.sample({"fault_event": f.readline().strip()[:700]})
                os.remove(out)
        for p in parts:
            os.remove(p)
        chk.phase(f"faults:{name}", behaviours=n, events=events_total, fired=fired_total)
    ev2, fired2 = reader_faults(chk, wd, quick)
    events_total += ev2
    fired_total += fired2
    chk.cov["evaluations"] = events_total
    chk.cov["distinct_nontrivial"] = fired_total
    chk.cov["rule"] = ("one evaluation = one run of a behaviour's last operation under one fault schedule (single "
                       "failure at call k, or failures from call k on, for every k up to the number of allocator "
                       "calls of the fault-free run; plus one random failure subset per behaviour); non-trivial = the "
                       "injected failure actually fired")
    chk.cov["geometries"] = geoms
    chk.cov["multi_failure_runs"] = dict(runs=chaos["chaos_runs"], operations_executed=chaos["chaos_ops"],
                                         ended_early_at_an_operation_no_longer_legal=chaos["chaos_truncated"])
    chk.level = "model_checking"
    chk.assumptions += ["shrinking reallocations never fail (excluded by the property)",
                        "the exact residue of a failed operation is not prescribed: postconditions only",
                        "multi-failure runs end at the first operation that, in the state the earlier failures "
                        "produced, is an overlapping copy (known finding C04 alias-overlap, independent of allocation "
                        "failures) or uses a reference whose element no longer exists",
                        "deserialization under failure: the four texts of DocumentMC inside document histories, and "
                        "seeded JSON / MessagePack inputs (valid, malformed, filtered, repeated strings) read on their "
                        "own with a failure at each of the first 40 (quick) / 400 (thorough) allocator calls"]
    return chk.finish()
