"""Seeded generator of documents for the serializer checks (C02, C08, C07): every scalar kind at its
boundary values, all 256 byte values inside strings and keys, nesting up to the limit, empty containers,
raw values, sizes on both sides of every MessagePack header-width boundary."""
import json
import random
import struct

from checks.readergen import node, TRUE, FALSE, NULL

INTS = [0, 1, 127, 128, 255, 256, 32767, 32768, 65535, 65536, 2**31 - 1, 2**31, 2**32 - 1, 2**32, 2**53, 2**53 + 1,
        2**63 - 1, 2**63, 2**64 - 1, -1, -31, -32, -33, -128, -129, -32768, -32769, -2**31, -2**31 - 1, -2**53, -2**63]
F32 = [0.0, -0.0, 1.5, -0.25, 0.1, 3.4028234663852886e38, 1.17549435e-38, 1e-45, 16777216.0, 16777217.0, 100.0, -3.0,
       123456.789, 1e10, 1e-10, 9.999999e-5, 0.001, 1234567.0, float("inf"), float("-inf"), float("nan"),
       2.0 ** 31, 2.0 ** 31 - 128, -2.0 ** 31, -2.0 ** 31 - 256, 2.0 ** 32, -2.0 ** 32, 2.0 ** 40 + 2.0 ** 20, 2.0 ** 62,
       -2.0 ** 62, 2.0 ** 63 - 2.0 ** 39, -2.0 ** 63, 2.0 ** 63, 2.0 ** 64, -2.0 ** 63 - 2.0 ** 40, 1e19, 65536.0, -129.0]
# doubles that are NOT exactly representable as float (the other class is the known finding double-stored-as-float)
F64 = [0.1, 1e300, -2.5e-300, 1.7976931348623157e308, 2.2250738585072014e-308, 123456789.125, 0.30000000000000004,
       3.141592653589793, 1e-7, 9.999999999e-5, 1e21, 1.7e19, 4.2e-5, float("inf"), float("nan"), 2.0 ** 53 + 2,
       1234567.891, 0.001234, 98765.4321, 1e15, -1e15 - 1, 2.0 ** 31 + 1, -2.0 ** 31 - 1, 2.0 ** 62 + 2.0 ** 10,
       2.0 ** 63 - 1024, -2.0 ** 63 - 2048, 2.0 ** 63 + 2048, 2.0 ** 64 - 2048, 4294967297.0, 1e18 + 128]
# doubles exactly representable as float (stored as float by the library): kept separate
F64_AS_FLOAT = [13592.40625, 0.0078125, 1.5, 100.0, 8388608.0, 3.0, 0.5]


def int_node(n):
    if n >= 0:
        return node("i+", n.to_bytes(8, "big"))
    return node("i-", (n % 2**64).to_bytes(8, "big"))


def rand_string(rng, allbytes=False):
    k = rng.randrange(8)
    if allbytes or k == 0:
        start = rng.randrange(256)
        return bytes((start + i) % 256 for i in range(rng.choice([1, 2, 16, 33])))
    if k == 1:
        return b"x" * rng.choice([0, 1, 31, 32, 33, 255, 256, 257])
    if k == 2:
        return rng.choice([b'q"q', b"back\\slash", b"/", b"\b\f\n\r\t", b"\x00", b"a\x00b", b"\x7f", b"\xc3\xa9", b"'"])
    return rng.choice([b"", b"a", b"hello", b"key", b"42", b"true"])


def rand_scalar(rng, f64_as_float=False):
    k = rng.randrange(9)
    if k == 0:
        return NULL
    if k == 1:
        return rng.choice([TRUE, FALSE])
    if k in (2, 3):
        n = rng.choice(INTS) if rng.random() < 0.8 else rng.randrange(-2**63, 2**64)
        return int_node(n)
    if k == 4:
        return node("f4", struct.pack(">f", rng.choice(F32)))
    if k == 5:
        return node("f8", struct.pack(">d", rng.choice(F64_AS_FLOAT if f64_as_float else F64)))
    return node("s", rand_string(rng))


def rand_doc(rng, depth=0, maxdepth=3, raw=None, f64_as_float=False):
    k = rng.randrange(10 if depth < maxdepth else 7)
    if k < 6:
        return rand_scalar(rng, f64_as_float)
    if k == 6 and raw == "json":
        text, val = rng.choice([(b"[7]", node("a", c=[node("#", b"7")])), (b"1.50", node("#", b"1.50")),
                                (b'{"k":null}', node("o", c=[node("m", b"k", [NULL])])), (b"true", TRUE),
                                (b'"s"', node("s", b"s")), (b"-0", node("#", b"-0")), (b"1e5", node("#", b"1e5"))])
        return node("r", text, [val])
    if k == 6 and raw == "mp":
        payload = bytes(rng.randrange(256) for _ in range(rng.choice([0, 1, 2, 4, 8, 16, 17, 255, 256])))
        if rng.random() < 0.5:
            n = len(payload)
            hdr = bytes([0xC4, n]) if n < 256 else bytes([0xC5]) + n.to_bytes(2, "big")
            return node("r", hdr + payload)
        typ = bytes([rng.randrange(256)])
        fix = {1: 0xD4, 2: 0xD5, 4: 0xD6, 8: 0xD7, 16: 0xD8}
        n = len(payload)
        if n in fix:
            return node("r", bytes([fix[n]]) + typ + payload)
        hdr = bytes([0xC7, n]) if n < 256 else bytes([0xC8]) + n.to_bytes(2, "big")
        return node("r", hdr + typ + payload)
    if k in (6, 7, 8):
        n = rng.choice([0, 1, 2, 3, 15, 16, 17]) if depth < 2 else rng.randrange(3)
        return node("a", c=[rand_doc(rng, depth + 1, maxdepth, raw, f64_as_float) for _ in range(n)])
    n = rng.choice([0, 1, 2, 3, 15, 16]) if depth < 2 else rng.randrange(3)
    keys = []
    for j in range(n):
        kk = rand_string(rng) if rng.random() < 0.5 else b"k%d" % j
        if kk in keys or len(kk) > 300:
            kk = b"k%d" % j
        keys.append(kk)
    return node("o", c=[node("m", kk, [rand_doc(rng, depth + 1, maxdepth, raw, f64_as_float)]) for kk in keys])


def deep(n, shape):
    v = int_node(1)
    for i in range(n):
        v = node("a", c=[v]) if (shape == "a" or (shape == "mix" and i % 2)) else node("o", c=[node("m", b"k", [v])])
    return v


def gen_docs(rng, n, f64_as_float=False):
    out = []
    # directed: all 256 byte values as string content and as key, boundary sizes, deep nesting
    for start in range(0, 256, 16):
        chunk = bytes(range(start, start + 16))
        out.append({"cls": "plain", "v": node("a", c=[node("s", chunk), node("o", c=[node("m", chunk, [TRUE])])])})
    for size in (0, 1, 31, 32, 255, 256, 257):
        out.append({"cls": "plain", "v": node("s", b"z" * size)})
    for count in (0, 1, 15, 16, 17, 300):
        out.append({"cls": "plain", "v": node("a", c=[int_node(i % 3) for i in range(count)])})
        out.append({"cls": "plain", "v": node("o", c=[node("m", b"k%d" % i, [NULL]) for i in range(count)])})
    for d in (1, 2, 9, 10, 50):
        for shape in ("a", "o", "mix"):
            out.append({"cls": "plain", "v": deep(d, shape)})
    for x in INTS:
        out.append({"cls": "plain", "v": int_node(x)})
    for x in F32:
        out.append({"cls": "plain", "v": node("f4", struct.pack(">f", x))})
    for x in (F64_AS_FLOAT if f64_as_float else F64):
        out.append({"cls": "plain", "v": node("f8", struct.pack(">d", x))})
    while len(out) < n:
        cls = rng.choice(["plain"] * 4 + ["jsonraw", "mpraw"])
        raw = {"plain": None, "jsonraw": "json", "mpraw": "mp"}[cls]
        out.append({"cls": cls, "v": rand_doc(rng, raw=raw, f64_as_float=f64_as_float)})
    return out


def gen_bulk():
    """documents too large for TLC's sequence operators: only their headers and sizes are validated"""
    out = []
    for n in (65534, 65535):
        out.append({"cls": "bulk", "kind": "s", "n": n})
    for n in (255, 256, 65535, 65536, 65537, 70000, 131073):
        out.append({"cls": "bulk", "kind": "sl", "n": n})
    for n in (65535, 65536, 65537):
        out.append({"cls": "bulk", "kind": "a", "n": n})
        out.append({"cls": "bulk", "kind": "o", "n": n})
    return out


def write_docs(path, docs):
    with open(path, "w") as f:
        for d in docs:
            f.write(json.dumps(d) + "\n")
