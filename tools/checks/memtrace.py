"""I->S for the allocator layer: doc_record --events (hook events, allocator events, inspector snapshots,
public calls) validated by TLC against spec/SlotPoolTrace.tla."""
import os

import vlib
from checks import doctrace


def record_and_validate(chk, rec_bins, labels, wd, events, runs_per_bin, nd=2, nr=3):
    """One trace per (binary, run): geometries cannot share a trace file start... they can (reset carries geo)."""
    seed = vlib.seed()
    cmds, outs = [], []
    for bi, b in enumerate(rec_bins):
        for k in range(runs_per_bin):
            out = os.path.join(wd, f"mem-{labels[bi]}-{k}.ndjson")
            outs.append((out, labels[bi]))
            cmds.append([b, out, str(seed * 1000 + bi * 37 + k), str(events), str(nd), str(nr), "--events"])
    res = vlib.run_parallel(cmds)
    ok_traces = 0
    total_events = 0
    good = []
    for (rc, txt), (out, label), cmd in zip(res, outs, cmds):
        if rc != 0:
            chk.violation(f"recording run {label} seed={cmd[2]} failed rc={rc}: {txt[-2500:]}")
            continue
        good.append((out, label))

    def validate(item):
        out, label = item
        sub = os.path.join(wd, "v-" + os.path.basename(out))
        return item, doctrace.validate_trace(chk, out, sub, label, module="SlotPoolTrace")
    from concurrent.futures import ThreadPoolExecutor
    with ThreadPoolExecutor(max_workers=8) as ex:
        for (out, label), (ok, n, detail) in ex.map(validate, good):
            if not ok:
                ok2, _, detail2 = doctrace.validate_trace(chk, out, os.path.join(wd, "v2-" + os.path.basename(out)),
                                                          label + "(recheck)", module="SlotPoolTrace")
                if not ok2:
                    chk.violation(detail2)
                    continue
            ok_traces += 1
            total_events += n
            if ok_traces == 1:
                with open(out) as f:
                    lines = [next(f).strip()[:300] for _ in range(6)]
                chk.sample({"recorded_events": lines})
            os.remove(out)
    chk.phase("memory-trace-validation", traces=ok_traces, events=total_events)
    chk.cov["traces_validated_against_impl"] += ok_traces
    chk.cov["evaluations"] += total_events
    return ok_traces
