"""I->S: record executions of the real library and validate them with TLC against
spec/DocumentTrace.tla (which reuses Document!Step)."""
import json
import os
import re
import subprocess

import vlib


def validate_trace(chk, trace, wd, label, module="DocumentTrace", timeout=900):
    """Returns (accepted, events, detail)."""
    os.makedirs(wd, exist_ok=True)
    cfg = os.path.join(wd, f"{module}.cfg")
    vlib.write_cfg(cfg, spec="TraceSpec", invariants=["TraceInv"], postcondition="Accepted")
    r = vlib.run_tlc(module, cfg, wd, workers=1, timeout=timeout, env={"TRACE": trace}, heap="6g")
    txt = vlib._tail(r.out_path, 300000)
    m = re.search(r'<<"TRACE-DEPTH", (-?\d+), (\d+)>>', txt)
    if not m:
        raise vlib.InfraError(f"trace validation of {label} did not finish: {vlib.tlc_error_excerpt(r)}")
    depth, total = int(m.group(1)), int(m.group(2))
    chk.add_tlc(r)
    if depth == total and r.violation is None or (depth == total and "TraceInv" not in txt):
        return True, total, ""
    rej = re.search(r'<<"REJECT", (".*")>>', txt)
    detail = f"{label}: recorded execution rejected by the specification at event {depth + 1} of {total}"
    if "Invariant TraceInv is violated" in txt:
        detail += " (model invariant TraceInv violated)"
    if rej:
        detail += " ; the specification expected " + json.loads(rej.group(1))[:3000]
    event = None
    with open(trace) as f:
        for i, line in enumerate(f):
            if i == depth:
                event = line.strip()
                break
    return False, total, detail + (" ; the implementation logged " + event[:3000] if event else "")


def record_and_validate(chk, rec_bins, wd, events, runs):
    seed = vlib.seed()
    cmds = []
    outs = []
    for k in range(runs):
        b = rec_bins[k % len(rec_bins)]
        out = os.path.join(wd, f"rec{k}.ndjson")
        outs.append(out)
        cmds.append([b, out, str(seed * 1000 + k), str(events // runs), "2", "3"])
    res = vlib.run_parallel(cmds)
    trace = os.path.join(wd, "recorded.ndjson")
    total = 0
    with open(trace, "w") as t:
        for (rc, out_txt), out, cmd in zip(res, outs, cmds):
            if rc != 0:
                last = ""
                if os.path.exists(out):
                    with open(out) as f:
                        lines = f.readlines()
                    last = lines[-1][:2000] if lines else ""
                chk.violation(f"recording run {os.path.basename(cmd[0])} seed={cmd[2]} failed rc={rc}: "
                              f"{out_txt[-2500:]} ; last event logged: {last}")
                continue
            with open(out) as f:
                for line in f:
                    t.write(line)
                    total += 1
            os.remove(out)
    if total == 0:
        return
    ok, n, detail = validate_trace(chk, trace, wd, "recorded")
    if not ok:
        # confirm once before reporting
        ok2, _, detail2 = validate_trace(chk, trace, wd, "recorded(recheck)")
        if not ok2:
            chk.violation(detail2)
    chk.phase("trace-validation", events=n, accepted=ok, recorder_runs=runs)
    with open(trace) as f:
        f.readline()
        chk.sample({"recorded_event": f.readline().strip()[:600]})
    if ok:
        chk.cov["traces_validated_against_impl"] += runs
        chk.cov["evaluations"] += n
    os.remove(trace)
