"""C16  One call consumes one document from a stream.
JsonReader.tla returns, with every result, how many bytes were taken from the input (look-ahead model:
a top-level number takes one byte more, everything else stops at its last character).  TLC checks on
every explored input that the result is a function of the consumed prefix only; the feed oracle computes,
for seeded concatenations of documents with arbitrary whitespace between them, what each successive call
returns and consumes; the library is run on std::istream, a byte-wise and a block-wise custom reader (and
the Arduino Stream fake) and must return the same documents and stop at the same positions."""
import os
import random

import vlib
from checks import readerchecks as rk
from checks import readercommon as rc
from checks import readergen as rg
from checks import msgpackcommon as mp
from checks import msgpackgen as mg


def run(tier):
    chk = vlib.Check("C16", tier)
    wd = vlib.workdir("C16")
    quick = tier == "quick"
    D = rc.OPTS_DEFAULT
    # (nodouble: a build that stores floating-point values in single precision reads float 64 through another path)
    variants = [("def", D, [], False), ("arduino", D, [], True), ("nodouble", D, ["ARDUINOJSON_USE_DOUBLE=0"], False)]
    bins = rk.build_readers(variants)
    by_opts = rk.group_by_opts(bins, variants[:2])
    rk.run_mc(chk, wd, by_opts, [("chars-s", "chars", 4 if quick else 5, [2], "none", D),
                                 ("number-s", "number", 4 if quick else 5, [2], "none", D)])
    rng = random.Random(vlib.seed())
    lines = rg.gen_sessions(rng, D, 4000 if quick else 60000)
    wants = []
    lines += rg.gen_valid(rng, D, 1500 if quick else 20000, wants)
    rk.run_feed(chk, wd, "sessions", lines, None, [("def", bins["def"]), ("arduino", bins["arduino"])])
    # back-to-back MessagePack objects in every legal encoding
    r, mcases, n = mp.feed_cases(chk, "mp-sessions", wd, mg.gen_sessions(rng, 3000 if quick else 40000))
    chk.add_tlc(r)
    for label in ("def", "arduino", "nodouble"):
        ran, evals, problems, _ = rc.replay_cases(chk, bins[label], mcases, f"mp-sessions/{label}")
        for what, case in problems[:3]:
            chk.violation(what, case)
        chk.cov["traces_validated_against_impl"] += ran
        chk.cov["evaluations"] += evals
    chk.phase("feed:msgpack-sessions", lines=n)
    # containers on both sides of the 16-bit count boundary, followed by another document
    import json
    bulk = os.path.join(wd, "bulk-sessions.ndjson")
    with open(bulk, "w") as f:
        for c in mg.bulk_session_cases():
            f.write(json.dumps(c) + "\n")
    ran, evals, problems, _ = rc.replay_cases(chk, bins["def"], bulk, "bulk-sessions/def", parts=5)
    for what, case in problems[:3]:
        chk.violation(what, (case or "")[:2000])
    chk.cov["traces_validated_against_impl"] += ran
    chk.cov["evaluations"] += evals
    chk.phase("bulk-sessions", cases=ran)
    return rk.finish(chk, "one evaluation = one call of a session (or one single-document case) on one stream kind; "
                          "code, value and number of bytes taken from the stream compared", rk.COMMON_ASSUMPTIONS + [
        "containers with more than 65535 entries are beyond TLC's sequence operators: for those sessions the expected "
        "calls (element count, bytes consumed) are those of the encoder that wrote them"])
