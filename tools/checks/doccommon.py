"""Shared pieces of the Document-level checks (C04, C14, C19, C05, C06):
TLC generation configs for spec/DocumentMC.tla and parallel replay."""
import json
import os
import subprocess

import vlib

GEOMETRIES = {
    # name: (POOL_CAPACITY, INITIAL_POOL_COUNT, SLOT_ID_SIZE, STRING_LENGTH_SIZE)
    "g2x1s1": (2, 1, 1, 1),
    "g3x2s1": (3, 2, 1, 2),
    "g4x4s2": (4, 4, 2, 2),
    "default": None,
}


def geom_defines(name):
    g = GEOMETRIES[name] if isinstance(name, str) else name
    if g is None:
        return []
    return [f"ARDUINOJSON_POOL_CAPACITY={g[0]}", f"ARDUINOJSON_INITIAL_POOL_COUNT={g[1]}",
            f"ARDUINOJSON_SLOT_ID_SIZE={g[2]}", f"ARDUINOJSON_STRING_LENGTH_SIZE={g[3]}"]


def mc_constants(ndocs, nrefs, keys, maxidx, maxpath, maxops, maxnodes, maxdepth, profile,
                 emit=True, emitmod=1):
    return {
        "NDocs": ndocs, "NRefs": nrefs, "Keys": vlib.tla_const(set(keys)), "MaxIdx": maxidx,
        "MaxPath": maxpath, "MaxOps": maxops, "MaxNodes": maxnodes, "MaxDepth": maxdepth,
        "EmitOn": vlib.tla_const(emit), "EmitMod": emitmod, "Profile": vlib.tla_const(profile),
    }


def generate(chk, name, constants, wd, simulate=None, depth=None, timeout=900, check_props=True,
             limit=None, module="DocumentMC", procs=8):
    """Run DocumentMC exhaustively (VIEW hides the history) or in -simulate mode (several
    single-worker TLC processes with different seeds: multi-worker simulation does not scale).
    Returns (TlcResult, ndjson path, n)."""
    cfg = os.path.join(wd, f"{name}.cfg")
    vlib.write_cfg(cfg, spec="SimSpec" if simulate else "Spec", constants=constants,
                   invariants=["Inv"],
                   properties=(["ReadOnlyStutter", "RefStable"] if check_props and not simulate else []),
                   view=None if simulate else "View",
                   action_constraints=["Emit"])
    dest = os.path.join(wd, f"{name}.ndjson")
    if not simulate:
        runs = [vlib.run_tlc(module, cfg, wd, timeout=timeout)]
    else:
        from concurrent.futures import ThreadPoolExecutor
        with ThreadPoolExecutor(max_workers=procs) as ex:
            futs = [ex.submit(vlib.run_tlc, module, cfg, os.path.join(wd, f"{name}-p{i}"), workers=1,
                              simulate=simulate, depth=depth, timeout=timeout, heap="2g",
                              seed_=vlib.seed() * 1000 + i) for i in range(procs)]
            runs = [f.result() for f in futs]
    total = vlib.TlcResult()
    total.ok = True
    n = 0
    with open(dest, "w") as out:
        for r in runs:
            if r.violation == "property":
                chk.violation(f"the Document specification violates its own model-level property in config "
                              f"{name}: " + vlib.tlc_error_excerpt(r))
                return r, None, 0
            if not r.ok and not (simulate and r.violation == "timeout"):
                raise vlib.InfraError(f"TLC failed on {name}: {vlib.tlc_error_excerpt(r)}")
            part = r.out_path + ".ndjson"
            n += vlib.extract_emitted(r.out_path, "BEHAVIOUR", part, limit=limit)
            with open(part) as f:
                for line in f:
                    out.write(line)
            os.remove(part)
            os.remove(r.out_path)
            total.generated += r.generated
            total.distinct += r.distinct
            total.wall = max(total.wall, r.wall)
    return total, dest, n


def generate_feed(chk, name, wd, candidates, procs=8, maxnodes=14, maxdepth=5, nd=2, nr=3, timeout=900,
                  profile=None):
    """Long random behaviours: seeded candidate operations (docfeed.py) filtered, applied and
    annotated with the expected observation by TLC (spec/DocumentFeed.tla).
    Returns (TlcResult, list of stream files, number of events)."""
    from concurrent.futures import ThreadPoolExecutor
    from checks import docfeed
    cfg = os.path.join(wd, f"{name}.cfg")
    vlib.write_cfg(cfg, spec="FeedSpec", constants={"MaxNodes": maxnodes, "MaxDepth": maxdepth, "AllowAlias": "FALSE"},
                   invariants=["FeedInv"], postcondition="Consumed")
    feeds = []
    for i in range(procs):
        fp = os.path.join(wd, f"{name}-feed{i}.ndjson")
        docfeed.write_feed(fp, vlib.seed() * 1000 + i, candidates // procs, nd=nd, nr=nr, profile=profile)
        feeds.append(fp)
    with ThreadPoolExecutor(max_workers=procs) as ex:
        futs = [ex.submit(vlib.run_tlc, "DocumentFeed", cfg, os.path.join(wd, f"{name}-p{i}"), workers=1,
                          timeout=timeout, heap="3g", env={"FEED": feeds[i]}) for i in range(procs)]
        runs = [f.result() for f in futs]
    total = vlib.TlcResult()
    streams = []
    n = 0
    for i, r in enumerate(runs):
        if r.violation == "property":
            chk.violation(f"Document specification violates FeedInv / did not consume feed {name}: "
                          + vlib.tlc_error_excerpt(r))
            continue
        if not r.ok:
            raise vlib.InfraError(f"TLC failed on feed {name}: {vlib.tlc_error_excerpt(r)}")
        st = os.path.join(wd, f"{name}-stream{i}.ndjson")
        n += vlib.extract_emitted(r.out_path, "BEHAVIOUR", st, dedupe=False)
        streams.append(st)
        os.remove(r.out_path)
        os.remove(feeds[i])
        total.generated += r.generated
        total.distinct += r.distinct
        total.wall = max(total.wall, r.wall)
    return total, streams, n


def replay_streams(chk, binary, streams, label, extra_args=(), timeout=1200):
    cmds = [[binary, f, str(vlib.seed())] + list(extra_args) + ["--stream"] for f in streams]
    res = vlib.run_parallel(cmds, timeout=timeout)
    return _collect(res, streams, label, remove=False)


def _collect(res, files, label, remove=True):
    total = 0
    problems = []
    for (rc, out), f in zip(res, files):
        summary = None
        for line in out.splitlines():
            if line.startswith("SUMMARY"):
                summary = vlib.kvs(line)
            elif line.startswith("MISMATCH") or line.startswith("CRASH"):
                idx = None
                for tok in line.split():
                    if tok.startswith("idx="):
                        idx = int(tok[4:])
                behaviour = None
                if idx is not None and idx >= 0:
                    with open(f) as fh:
                        for i, l in enumerate(fh):
                            if i == idx:
                                behaviour = l.strip()
                                break
                problems.append((f"{label}: {line[:1500]}", behaviour))
        if summary:
            total += int(summary["lines"])
        else:
            # no SUMMARY line: the harness did not finish (a sanitizer abort exits with code 1 and may print nothing
            # on stdout), whatever the exit code
            if not any(p[0].startswith(f"{label}: CRASH") for p in problems):
                problems.append((f"{label}: harness died rc={rc}: {out[-1500:]}", None))
        if remove:
            os.remove(f)
    return total, problems


def replay(chk, binary, ndjson, label, extra_args=(), parts=None, timeout=1200):
    """Replay a behaviours file on one harness binary, in parallel chunks.
    Returns (lines, mismatches:list[str])."""
    parts = parts or vlib.NCPU
    files = vlib.split_file(ndjson, parts)
    cmds = [[binary, f, str(vlib.seed())] + list(extra_args) for f in files]
    res = vlib.run_parallel(cmds, timeout=timeout)
    return _collect(res, files, label)


ALIAS_SCENARIOS = {
    # name: list of ops (docfeed vocabulary) ending with an overlapping copy
    "self (owned string)": [("set", "d", 1, [], ("s", "hello")), ("copy", "d", 1, [], "d", 1, [])],
    "self (array)": [("deser", "d", 1, [], "[1,2]"), ("copy", "d", 1, [], "d", 1, [])],
    "element <- whole document": [("deser", "d", 1, [], "[[1,2],3]"), ("copy", "d", 1, [("i", 0)], "d", 1, [])],
    "root <- child": [("deser", "d", 1, [], "[[1,2],3]"), ("copy", "d", 1, [], "d", 1, [("i", 0)])],
    "member <- ancestor member": [("deser", "d", 1, [], "{\"a\":{\"c\":1}}"), ("copy", "d", 1, [("k", "a"), ("k", "b")], "d", 1, [("k", "a")])],
    "doc.set(member of itself)": [("deser", "d", 1, [], "{\"a\":[1,2]}"), ("docset", 1, "d", 1, [("k", "a")])],
}


def alias_probe(chk, binary, wd):
    """Known finding alias-overlap: each scenario is annotated by the specification (value semantics) and
    replayed in a process of its own (the pinned behaviour includes use-after-free and unbounded recursion)."""
    import json
    import subprocess
    from checks import docfeed

    def path(p):
        return [{"k": x[1], "i": -1} if x[0] == "k" else {"k": "", "i": x[1]} for x in p]

    def op(spec):
        o = {"op": spec[0], "tb": "", "ti": 0, "tp": [], "v": docfeed.node("n"), "sb": "", "si": 0, "sp": [], "r": 0,
             "i": 0, "k": "", "x": ""}
        if spec[0] == "set":
            o.update(tb=spec[1], ti=spec[2], tp=path(spec[3]), v=docfeed.node(spec[4][0], spec[4][1]))
        elif spec[0] == "deser":
            val = json.loads(spec[4])

            def nd(x):
                if isinstance(x, list):
                    return docfeed.node("a", "", [nd(e) for e in x])
                if isinstance(x, dict):
                    return docfeed.node("o", "", [docfeed.node("m", k, [nd(v)]) for k, v in x.items()])
                return docfeed.node("i", str(x))
            o.update(tb=spec[1], ti=spec[2], tp=path(spec[3]), v=nd(val), x=spec[4])
        elif spec[0] == "copy":
            o.update(tb=spec[1], ti=spec[2], tp=path(spec[3]), sb=spec[4], si=spec[5], sp=path(spec[6]))
        elif spec[0] == "docset":
            o.update(tb="d", ti=spec[1], sb=spec[2], si=spec[3], sp=path(spec[4]))
        return o
    hits = 0
    for name, ops in ALIAS_SCENARIOS.items():
        feed = os.path.join(wd, "alias-feed.ndjson")
        with open(feed, "w") as f:
            f.write(json.dumps({"e": "reset", "nd": 1, "nr": 1}) + "\n")
            for spec in ops:
                f.write(json.dumps({"e": "op", "op": op(spec)}) + "\n")
        cfg = os.path.join(wd, "alias.cfg")
        vlib.write_cfg(cfg, spec="FeedSpec", constants={"MaxNodes": 30, "MaxDepth": 8, "AllowAlias": "TRUE"},
                       invariants=["FeedInv"], postcondition="Consumed")
        r = vlib.run_tlc("DocumentFeed", cfg, os.path.join(wd, "alias"), workers=1, timeout=300, env={"FEED": feed})
        if not r.ok:
            raise vlib.InfraError("alias probe: TLC failed: " + vlib.tlc_error_excerpt(r))
        stream = os.path.join(wd, "alias-stream.ndjson")
        n = vlib.extract_emitted(r.out_path, "BEHAVIOUR", stream, dedupe=False)
        if n != len(ops) + 1:
            raise vlib.InfraError(f"alias probe {name}: specification did not accept the scenario")
        try:
            p = subprocess.run([binary, stream, "1", "2", "--stream"], capture_output=True, text=True, timeout=20,
                               errors="replace")
            bad = p.returncode != 0
            what = (p.stdout + p.stderr)[-300:].replace("\n", " ")
        except subprocess.TimeoutExpired:
            bad, what = True, "does not terminate"
        if bad:
            hits += 1
            chk.violation(f"alias-overlap: overlapping copy '{name}' does not behave as a copy of the source's value: {what}")
    chk.phase("alias-probe", scenarios=len(ALIAS_SCENARIOS), misbehaving=hits)
