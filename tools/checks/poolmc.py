"""Model checking of spec/SlotPool.tla over a matrix of geometries (several TLC processes in parallel)."""
import os
from concurrent.futures import ThreadPoolExecutor

import vlib


def check_geometries(chk, wd, geoms, allow_fail, maxfree, maxpools, timeout=1500, par=4):
    """geoms: list of (PoolCap, InitPools, Bits). Returns number of configurations that passed."""
    def one(g):
        cap, init, bits = g
        cfg = os.path.join(wd, f"sp-{cap}-{init}-{bits}-{int(allow_fail)}.cfg")
        vlib.write_cfg(cfg, constants={
            "PoolCap": cap, "InitPools": init, "Bits": bits, "Legacy": "FALSE",
            "StrToks": vlib.tla_const({"a", "b"}), "AllowFail": vlib.tla_const(allow_fail),
            "MaxFree": maxfree, "MaxPoolsExplored": maxpools},
            invariants=["Inv"], properties=["FreshId", "Reuse", "PoolOnlyWhenFull"], constraints=["Bound"])
        return g, vlib.run_tlc("SlotPool", cfg, os.path.join(wd, f"sp-{cap}-{init}-{bits}-{int(allow_fail)}"),
                               workers=max(2, vlib.NCPU // par), timeout=timeout, heap="6g")
    passed = 0
    with ThreadPoolExecutor(max_workers=par) as ex:
        for g, r in ex.map(one, geoms):
            if r.violation == "property":
                chk.violation(f"SlotPool.tla: geometry PoolCap={g[0]} InitPools={g[1]} Bits={g[2]} "
                              f"AllowFail={allow_fail} violates a model-level property: " + vlib.tlc_error_excerpt(r))
            elif not r.ok:
                raise vlib.InfraError(f"TLC failed on SlotPool {g}: {vlib.tlc_error_excerpt(r)}")
            else:
                passed += 1
                chk.add_tlc(r)
            try:
                os.remove(r.out_path)
            except OSError:
                pass
    return passed
