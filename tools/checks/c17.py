"""C17  Unicode escapes decode correctly for every code point; escaping is the inverse.
Decoding direction: JsonReader.tla's \\u machine (4 hex digits in either case, surrogate pairs, UTF-8
encoder whose shape is checked for every BMP code unit and the plane boundaries by ASSUME in
EscapeTrace.tla) is the oracle; every \\uXXXX code unit in lower and upper case, as value and as key, at
the start / middle / end of a string, and high/low surrogate pairs (quick: all highs x 64 boundary lows;
thorough: all 1024 x 1024) are fed through JsonReaderFeed and replayed through every input kind; unpaired
surrogates are included (any of the six codes, no crash).  Escaping direction: every byte and byte pair
(quick: every byte with 18 edge bytes in both orders; thorough: all 65536 pairs) as string content and as
key is serialized and read back by harness/escape_record.cpp and decided by EscapeTrace.tla."""
import json
import os
import random
from concurrent.futures import ThreadPoolExecutor

import vlib
from checks import readerchecks as rk
from checks import readercommon as rc
from checks import readergen as rg
from checks import doctrace


def hex4(u, upper):
    return (b"%04X" if upper else b"%04x") % u


def unicode_lines(quick, rng):
    o = rc.OPTS_DEFAULT
    lines = []
    for u in range(0x10000):
        if 0xD800 <= u < 0xE000:
            continue
        up = u % 2 == 0
        esc = b"\\u" + hex4(u, up)
        pos = u % 4
        s = [b'"' + esc + b'"', b'"ab' + esc + b'"', b'"' + esc + b'cd"', b'{"k' + esc + b'":1}'][pos]
        lines.append(rg.line(s, o, tag="unit"))
        if not quick or u % 16 == 0 or u < 0x100:
            lines.append(rg.line(b'"x' + b"\\u" + hex4(u, not up) + b'y"', o, tag="unit"))
    lows = list(range(0xDC00, 0xE000)) if not quick else \
        sorted(set([0xDC00, 0xDC01, 0xDFFF, 0xDFFE, 0xDE00] + [0xDC00 + rng.randrange(1024) for _ in range(59)]))
    for hi in range(0xD800, 0xDC00):
        for lo in lows:
            if not quick and (hi + lo) % 1 != 0:
                continue
            esc = b"\\u" + hex4(hi, (hi + lo) % 2 == 0) + b"\\u" + hex4(lo, lo % 3 == 0)
            lines.append(rg.line(b'"' + esc + b'"' if lo % 2 else b'["p' + esc + b'q"]', o, tag="pair"))
    # escapes in KEYS next to sibling keys that are their prefix / differ only after the escape: the decoded key
    # is a key of its own (in either order of appearance, with values of different kinds)
    escs = [b"\\u0000", b"\\u0001", b"\\u0041", b"\\u00e9", b"\\u20AC", b"\\ud83d\\ude00", b"\\u0000\\u00e9", b"\\n"]
    for e1 in escs:
        for base in (b"", b"a", b"key"):
            k1, k2 = b'"' + base + b'"', b'"' + base + e1 + b'"'
            lines.append(rg.line(b"{" + k1 + b":1," + k2 + b":2}", o, tag="keyesc"))
            lines.append(rg.line(b"{" + k2 + b':"x",' + k1 + b":[true]}", o, tag="keyesc"))
            lines.append(rg.line(b"{" + k1 + b":1," + k2 + b":2," + b'"' + base + e1 + b'b":3,' + k2 + b":4}", o, tag="keyesc"))
            for e2 in escs[:4]:
                if e2 != e1:
                    lines.append(rg.line(b'{"' + base + e1 + b'":1,"' + base + e2 + b'":2}', o, tag="keyesc"))
    # unpaired surrogates: only "no crash, some code" is required, the specification still predicts them
    for u in list(range(0xD800, 0xE000, 7)):
        lines.append(rg.line(b'"' + b"\\u" + hex4(u, False) + b'"', o, tag="unpaired"))
        lines.append(rg.line(b'"' + b"\\u" + hex4(u, True) + b"\\u0041" + b'"', o, tag="unpaired"))
    return lines


def run(tier):
    chk = vlib.Check("C17", tier)
    wd = vlib.workdir("C17")
    quick = tier == "quick"
    rng = random.Random(vlib.seed())
    # (debug: ARDUINOJSON_DEBUG=1 turns the library's internal assertions on; they must hold for every input)
    bins = rk.build_readers([("def", rc.OPTS_DEFAULT, [], False), ("debug", rc.OPTS_DEFAULT, ["ARDUINOJSON_DEBUG=1"], False)])
    esc_bin = vlib.build("escape_record", "escape_record.cpp")
    esc_dbg = vlib.build("escape_record-debug", "escape_record.cpp", defines=["ARDUINOJSON_DEBUG=1"])
    lines = unicode_lines(quick, rng) + rg.gen_escape_offsets(rc.OPTS_DEFAULT)
    if not quick:
        # 1M pairs: replay in slices to bound the size of the case files
        step = 200000
    else:
        step = len(lines)
    for k in range(0, len(lines), step):
        rk.run_feed(chk, wd, f"unicode{k // step}", lines[k:k + step], None, [("def", bins["def"]), ("debug", bins["debug"])])
    # escaping direction
    jobs = []
    for i in range(16):
        out = os.path.join(wd, f"esc{i}.ndjson")
        # (every other slice on the build with the library's assertions enabled)
        jobs.append(([esc_dbg if i % 2 else esc_bin, out, str(i * 16), str(i * 16 + 15), "edge" if quick else "all"], out))
    res = vlib.run_parallel([j[0] for j in jobs])
    rows = 0
    good = []
    for (rcode, txt), (cmd, out) in zip(res, jobs):
        if rcode != 0:
            chk.violation(f"escape_record crashed rc={rcode}: {txt[-1500:]}")
        else:
            good.append(out)

    def validate(out):
        return out, doctrace.validate_trace(chk, out, os.path.join(wd, "v-" + os.path.basename(out)), "escape",
                                            module="EscapeTrace", timeout=1500)
    with ThreadPoolExecutor(max_workers=8) as ex:
        for out, (ok, n, detail) in ex.map(validate, good):
            if not ok:
                chk.violation(detail)
            else:
                rows += n
                chk.cov["traces_validated_against_impl"] += 1
    with open(good[0]) as f:
        chk.sample({"escape_row": f.readline().strip()})
    chk.phase("escape-trace-validation", rows=rows)
    chk.cov["evaluations"] += rows
    return rk.finish(chk, "one evaluation = one \\\\u input through one input kind, or one byte / byte pair serialized and "
                          "read back (as value and as key)", rk.COMMON_ASSUMPTIONS[1:] + [
        "quick tier: all 63488 BMP code units (one hex case each, both cases for a sixteenth), 1024 high surrogates x 64 low "
        "surrogates, every byte with 18 edge bytes; thorough tier: everything the property lists"])
