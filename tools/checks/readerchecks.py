"""The JSON-reader checks C01 C03 C10 C11 C15 C16 share one specification (JsonReader.tla), one oracle
pipeline (JsonReaderMC / JsonReaderFeed) and one harness (reader_replay); they differ in which inputs,
configurations and observations they concentrate on."""
import os
import random

import vlib
from checks import readercommon as rc
from checks import readergen as rg

ARDUINO = ["-include", "Arduino.h"]


def build_readers(variants):
    """variants: list of (label, opts, extra defines, arduino?) -> {label: binary}"""
    specs = []
    for label, o, defs, ard in variants:
        specs.append(dict(name=f"reader_replay-{label}", source="reader_replay.cpp",
                          defines=rc.opt_defines(o) + list(defs), extra=ARDUINO if ard else ()))
    bins = vlib.build_many(specs)
    return {v[0]: b for v, b in zip(variants, bins)}


def run_mc(chk, wd, bins_by_opts, plan):
    """plan: list of (name, symbolset, maxlen, limits, filterset, opts). Each generated case file is
    replayed on every binary whose options match."""
    total = 0
    for name, symset, maxlen, limits, fset, o in plan:
        r, cases, n = rc.mc_cases(chk, name, wd, symset, maxlen, limits, fset, o)
        if cases is None:
            continue
        chk.add_tlc(r)
        with open(cases) as f:
            for _ in range(min(n, 40)):
                ln = f.readline()
            chk.sample({"config": name, "case": rc.pretty_case(ln)})
        for label, b in bins_by_opts.get(rc.opt_name(o), []):
            ran, evals, problems, _ = rc.replay_cases(chk, b, cases, f"{name}/{label}")
            total += evals
            chk.cov["traces_validated_against_impl"] += ran
            for what, case in problems[:3]:
                chk.violation(what, case)
        chk.phase(f"tlc:{name}", inputs=r.distinct, cases=n, symbols=symset, maxlen=maxlen)
        os.remove(cases)
    chk.cov["evaluations"] += total
    return total


def run_feed(chk, wd, name, lines, wants, bins, label_of=lambda b: "", stacks_out=None):
    r, cases, n = rc.feed_cases(chk, name, wd, lines, wants)
    chk.add_tlc(r)
    total = 0
    with open(cases) as f:
        first = f.readline()
    chk.sample({"feed": name, "case": rc.pretty_case(first)})
    for label, b in bins:
        ran, evals, problems, stacks = rc.replay_cases(chk, b, cases, f"{name}/{label}")
        total += evals
        chk.cov["traces_validated_against_impl"] += ran
        if stacks_out is not None:
            stacks_out[label] = stacks
        for what, case in problems[:3]:
            chk.violation(what, case)
    chk.phase(f"feed:{name}", lines=n, evaluations=total)
    chk.cov["evaluations"] += total
    os.remove(cases)
    return total


def group_by_opts(bins, variants):
    g = {}
    for label, o, defs, ard in variants:
        g.setdefault(rc.opt_name(o), []).append((label, bins[label]))
    return g


def finish(chk, rule, assumptions):
    chk.cov["distinct_nontrivial"] = chk.cov["evaluations"]
    chk.cov["rule"] = rule
    chk.assumptions += assumptions
    return chk.finish()


COMMON_ASSUMPTIONS = [
    "the numeric VALUE of a number literal is not defined by JsonReader.tla (it carries the literal): the harness "
    "reads integers exactly and other literals with strtod and allows a relative error of 1e-6 (C12 decides accuracy)",
    "exhaustive exploration is over the named symbol alphabets up to the stated length; other inputs are seeded",
    "crashes, out-of-bounds reads (exact-size heap copies) and undefined behaviour are observed by ASan/UBSan",
]
