"""C15  The nesting limit bounds recursion for every input.
Model level: JsonReader.tla tracks the deepest recursion level entered, in parse mode and in skip mode;
TLC checks on every explored input and limit 0..2 that the level never exceeds the limit and that a
document obtained with Ok has nesting() <= limit.  Implementation: families of inputs made of n opening
brackets / object headers / mixtures (n = L, L+1, L+2 and thousands) for L in {0,1,2,9,10,11,127,254,255},
with and without filters that discard them, closed and unclosed; the specification gives the expected
code (TooDeep exactly when a container is opened at depth L+1); the stack consumed (probed inside the
reader callback) for thousands of brackets must not exceed what L+1 brackets consume."""
import random
import re

import vlib
from checks import readerchecks as rk
from checks import readercommon as rc
from checks import readergen as rg
from checks import msgpackcommon as mp
from checks import msgpackgen as mg


def run(tier):
    chk = vlib.Check("C15", tier)
    wd = vlib.workdir("C15")
    quick = tier == "quick"
    D = rc.OPTS_DEFAULT
    variants = [("def", D, [], False), ("all", rc.OPTS_ALL, [], False)]
    bins = rk.build_readers(variants)
    by_opts = rk.group_by_opts(bins, variants)
    rk.run_mc(chk, wd, by_opts, [("chars-l", "chars", 4 if quick else 5, [0, 1, 2, 3], "small", D)])
    rng = random.Random(vlib.seed())
    limits = (0, 1, 2, 10, 127, 255) if quick else (0, 1, 2, 9, 10, 11, 127, 254, 255)
    lines = rg.gen_depth(rng, D, limits=limits, big=5000)
    lines += [l for l in rg.gen_mutants(rng, D, 1500) if l["lim"] <= 2]
    stacks = {}
    rk.run_feed(chk, wd, "depth", lines, None, [("def", bins["def"])], stacks_out=stacks)
    # MessagePack families: fixarray / fixmap / array16 / map32 header chains and mixtures
    r, mcases, n = mp.feed_cases(chk, "mp-depth", wd, mg.gen_depth(limits=limits, big=5000))
    chk.add_tlc(r)
    ran, evals, problems, mstacks = rc.replay_cases(chk, bins["def"], mcases, "mp-depth/def")
    for what, case in problems[:3]:
        chk.violation(what, case)
    chk.cov["traces_validated_against_impl"] += ran
    chk.cov["evaluations"] += evals
    chk.phase("feed:msgpack-depth", lines=n, evaluations=evals)
    r, mcases, n = mp.mc_cases(chk, "mp-headers-l", wd, "headers", 3 if quick else 4, [0, 1, 2, 3], "small", emit=False)
    if r.ok:
        chk.add_tlc(r)
    # inputs that grow in length without growing in depth, on the default and on the all-options build (comments)
    fstacks = {}
    for label, o in (("def", D), ("all", rc.OPTS_ALL)):
        st = {}
        rk.run_feed(chk, wd, f"flat-{label}", rg.gen_flat(o), None, [(label, bins[label])], stacks_out=st)
        for (tag, f), b in st.get(label, {}).get("by_tag", {}).items():
            m = re.match(r"flat n=(\d+) L=(\d+) shape=(.*)", tag)
            if m:
                fstacks.setdefault((label, m.group(3), f), {})[int(m.group(1))] = b
    flat_compared = 0
    for (label, shape, f), d in fstacks.items():
        if len(d) >= 2:
            flat_compared += 1
            small, big = min(d), max(d)
            if d[big] > d[small] + 1024:
                chk.violation(f"stack consumed depends on the input length: build {label}, shape {shape}: {d[big]} bytes "
                              f"for size {big}, {d[small]} bytes for size {small}")
    chk.phase("stack-independence(flat)", groups=flat_compared)
    # stack use is a function of the limit, not of the input length
    by_tag = dict(stacks.get("def", {}).get("by_tag", {}))
    by_tag.update({("mp " + k[0].replace("depth", "depth", 1), k[1]): v for k, v in mstacks.get("by_tag", {}).items()})
    groups = {}
    for (tag, f), b in by_tag.items():
        m = re.match(r"((?:mp )?depth(?:-open)?) n=(\d+) L=(\d+) shape=(.*)", tag)
        if m:
            groups.setdefault((m.group(1), int(m.group(3)), m.group(4), f), {})[int(m.group(2))] = b
    compared = 0
    for (kind, L, shape, f), d in groups.items():
        if 5000 in d and (L + 1) in d:
            compared += 1
            if d[5000] > d[L + 1] + 1024:
                chk.violation(f"stack consumed depends on the input length: limit {L}, shape {shape}: "
                              f"{d[5000]} bytes for 5000 levels, {d[L + 1]} bytes for {L + 1} levels")
    chk.phase("stack-independence", groups=compared, max_stack_L255=max([d.get(5000, 0) for (k, L, s, f), d in groups.items() if L == 255] + [0]))
    return rk.finish(chk, "one evaluation = one (input, limit, filter) case through one input kind; stack probes "
                          "compare n=5000 with n=L+1 for each (limit, shape, filter)", rk.COMMON_ASSUMPTIONS + [
        "the stack probe measures the address of a local variable inside the custom reader's read() callback"])
