"""Landmark table for C13 and literal shapes for C12.  All arithmetic here is exact (fractions /
integers); the specification only needs the ORDER of landmarks relative to the type limits (ranks), the
decimal spelling of a truncated value and the IEEE bit patterns of exactly representable values."""
import json
import random
import struct
from fractions import Fraction

TYPES = [("int8", -2**7, 2**7 - 1), ("uint8", 0, 2**8 - 1), ("int16", -2**15, 2**15 - 1), ("uint16", 0, 2**16 - 1),
         ("int32", -2**31, 2**31 - 1), ("uint32", 0, 2**32 - 1), ("int64", -2**63, 2**63 - 1), ("uint64", 0, 2**64 - 1),
         ("long", -2**63, 2**63 - 1), ("ulong", 0, 2**64 - 1)]


def is_f32(x):
    try:
        return Fraction(struct.unpack(">f", struct.pack(">f", float(x)))[0]) == x
    except OverflowError:
        return False


def is_f64(x):
    try:
        return Fraction(float(x)) == x
    except OverflowError:
        return False


def dec(x):
    """exact decimal spelling of a dyadic rational"""
    x = Fraction(x)
    if x.denominator == 1:
        return str(x.numerator)
    sign = "-" if x < 0 else ""
    x = abs(x)
    ip = x.numerator // x.denominator
    fp = x - ip
    digits = ""
    while fp:
        fp *= 10
        d = fp.numerator // fp.denominator
        digits += str(d)
        fp -= d
    return f"{sign}{ip}.{digits}"


def trunc(x):
    x = Fraction(x)
    return int(x) if x >= 0 else -int(-x)


def landmarks():
    vals = set()
    for k in (7, 8, 15, 16, 23, 24, 31, 32, 52, 53, 63, 64):
        for s in (1, -1):
            for d in (-2, -1, 0, 1, 2):
                vals.add(Fraction(s * (2**k) + d))
            vals.add(Fraction(s * (2**k)) + Fraction(1, 2))
            vals.add(Fraction(s * (2**k)) - Fraction(1, 2))
    for _, lo, hi in TYPES:
        for v in (lo, hi):
            for d in (Fraction(-1), Fraction(-1, 2), Fraction(0), Fraction(1, 2), Fraction(1), Fraction(9, 10)):
                vals.add(Fraction(v) + d)
    for v in (0, 1, -1, Fraction(1, 2), Fraction(-1, 2), Fraction(3, 2), 42, Fraction(-255, 2), 1000, -1000,
              Fraction(2**70), Fraction(-2**70), Fraction(10)**20, Fraction(1, 1024)):
        vals.add(Fraction(v))
    # neighbours in float / double precision of the 64-bit limits
    for v in (2.0**63, 2.0**64, -(2.0**63)):
        for nxt in (struct.unpack(">d", struct.pack(">Q", struct.unpack(">Q", struct.pack(">d", abs(v)))[0] - 1))[0],):
            vals.add(Fraction(nxt if v > 0 else -nxt))
    return sorted(vals)


def table():
    lms = landmarks()
    order = sorted(set(lms) | {Fraction(t[1]) for t in TYPES} | {Fraction(t[2]) for t in TYPES})
    rank = {v: i for i, v in enumerate(order)}
    rows = []
    for x in lms:
        stores = []
        if x.denominator == 1:
            n = x.numerator
            if -2**31 <= n < 2**31:
                stores.append("i32")
            if 0 <= n < 2**32:
                stores.append("u32")
            if -2**63 <= n < 2**63:
                stores.append("i64")
            if 0 <= n < 2**64:
                stores.append("u64")
        if is_f32(x):
            stores.append("f32")
        if is_f64(x):
            stores.append("f64")
        # numeric strings: exact decimal spelling (the parser is only accurate to 1e-13: keep literals whose
        # value is exactly representable in a double and short enough, otherwise the rank would be unreliable)
        if is_f64(x) and len(dec(x).replace("-", "").replace(".", "")) <= 15:
            stores.append("str")
        for st in stores:
            d = float(x) if abs(x) < Fraction(10)**300 else 0.0
            rows.append({"lit": dec(x), "store": st, "r": rank[x], "tr": str(trunc(x)),
                         "isint": st in ("i32", "u32", "i64", "u64"),
                         "d64": list(struct.pack(">d", d)),
                         "f32": list(struct.pack(">f", struct.unpack(">f", struct.pack(">f", d))[0]
                                                 if abs(d) < 3.4e38 else (float("inf") if d > 0 else float("-inf"))))})
    types = [{"name": t[0], "lo": rank[Fraction(t[1])], "hi": rank[Fraction(t[2])]} for t in TYPES]
    return {"types": types, "rows": rows}


# ---------------------------------------------------------------------------------------- C12 shapes
def digits(rng, n, first_nonzero=True):
    if n == 0:
        return ""
    s = str(rng.randrange(1, 10)) if first_nonzero else str(rng.randrange(10))
    return s + "".join(str(rng.randrange(10)) for _ in range(n - 1))


def shapes(rng, n, long_ok=True):
    """literals described by their shape; the harness parses them, measures the error; TLC picks the bound."""
    out = []
    int_digits = [1, 2, 7, 8, 9, 15, 16, 17, 19, 20, 22, 40, 62] + ([300, 600, 3000] if long_ok else [])
    frac_digits = [0, 1, 2, 7, 8, 15, 17, 20, 40] + ([300, 600] if long_ok else [])
    exps = [None, 0, 1, -1, 5, -5, 37, 38, 39, -37, -38, -39, 100, -100, 300, -300, 308, -308, 309, -309, 330, -330, 400,
            -400, 99999, -99999, 100000, -100000, 1234567, -7654321, 18446744073709551616, -99999999999]
    prefixes = ["generic", "max-u64", "max-i64", "nines", "zero-frac"]
    while len(out) < n:
        sign = rng.choice(["", "", "-", "+"])
        lead = "0" * rng.choice([0, 0, 0, 1, 2])
        ni = rng.choice(int_digits)
        nf = rng.choice(frac_digits)
        ex = rng.choice(exps)
        pf = rng.choice(prefixes)
        if pf == "max-u64":
            ip = rng.choice(["18446744073709551615", "18446744073709551616", "18446744073709551614", "18446744073709551620",
                             "1844674407370955161", "184467440737095516150"])
            sign = rng.choice(["", "+"])
        elif pf == "max-i64":
            ip = rng.choice(["9223372036854775807", "9223372036854775808", "9223372036854775809", "9223372036854775806"])
        elif pf == "nines":
            ip = "9" * ni
        elif pf == "zero-frac":
            ip = "0"
        else:
            ip = digits(rng, ni)
        fp = ""
        if nf:
            fp = "." + (("0" * rng.randrange(nf) + digits(rng, 1)) if pf == "zero-frac" else digits(rng, nf, False))
        # exponent spelling: optional '+', optional leading zeros
        es = "" if ex is None else rng.choice("eE") + (("+" if ex >= 0 and rng.random() < 0.3 else "-" if ex < 0 else "") +
                                                        "0" * rng.choice([0, 0, 0, 1, 2, 4, 6, 12]) + str(abs(ex)))
        lit = sign + lead + ip + fp + es
        isint = fp == "" and es == ""
        sig = len((ip + fp.replace(".", "")).lstrip("0"))
        canon = ip.lstrip("0") or "0"
        out.append({"lit": lit, "isint": isint, "neg": sign == "-", "canon": canon, "sig": sig, "long": len(lit) > 63,
                    # comparison of the canonical digits with the limits (TLC cannot index strings)
                    "fitsu": int(canon) <= 2**64 - 1, "fitsi": int(canon) <= 2**63})
    return out


if __name__ == "__main__":
    t = table()
    print(len(t["rows"]), "rows;", len(shapes(random.Random(1), 50)), "shapes")
