"""C07  Round trips and format conversions preserve the document (WriterTrace.tla with Focus = "C07":
MessagePack round trip byte-identical, JSON round trip equivalent (floats within C12), JSON -> document
-> MessagePack -> document equal to JSON -> document); model level: MsgPackMC checks
Decode(Canon(Decode(e))) = Decode(e) and Canon stable on every explored byte string."""
from checks import writercommon


def run(tier):
    return writercommon.run("C07", tier,
                            "one evaluation = one document taken through the four round trips, validated by "
                            "WriterTrace.tla (Focus C07)",
                            ["raw values are excluded from the JSON round trips, as the property says",
                             "floating-point equivalence after a JSON round trip is judged by the harness with the C12 bounds"])
