"""Independent MessagePack encoder with arbitrary LEGAL width choices (non-minimal integer and length
widths, float32/float64, fix/8/16/32 families, bin and ext), for the feed oracle MsgPackFeed.tla.
It remembers the value it meant, so that the specification's decoder is cross-checked first."""
import random
import struct

from checks.readergen import node, TRUE, FALSE, NULL, rand_filter

OPTS = dict(comments=False, nan=False, inf=False, unicode=True)

INT_EDGES = [0, 1, 127, 128, 255, 256, 32767, 32768, 65535, 65536, 2**31 - 1, 2**31, 2**32 - 1, 2**32, 2**53, 2**63 - 1,
             2**63, 2**64 - 1, -1, -32, -33, -128, -129, -32768, -32769, -2**31, -2**31 - 1, -2**63]
F32 = [0.0, 1.5, -0.25, 3.4028234663852886e38, 1e-45, float("inf"), float("-inf"), 16777216.0, 100.0]
F64 = [0.1, 1e300, -2.5e-300, 1.7976931348623157e308, 5e-324, 123456789.125, 3.0, float("inf")]
STRS = [b"", b"a", b"hello", b"a\x00b", b"\xc3\xa9", b"x" * 31, b"y" * 32, b"z" * 255, b"w" * 256, b"\xff\xfe"]
KEYS = [b"a", b"b", b"", b"ab", b"a\x00b", b"*", b"key", b"k" * 32]


def be(n, width):
    return n.to_bytes(width, "big", signed=False)


def enc_int(rng, n):
    """Any legal encoding of the integer n; returns (bytes, node)."""
    if n >= 0:
        nd = node("i+", be(n, 8))
        choices = []
        if n <= 127:
            choices.append(bytes([n]))
        for code, w in ((0xCC, 1), (0xCD, 2), (0xCE, 4), (0xCF, 8)):
            if n < 256 ** w:
                choices.append(bytes([code]) + be(n, w))
        for code, w in ((0xD0, 1), (0xD1, 2), (0xD2, 4), (0xD3, 8)):
            if n < 2 ** (8 * w - 1):
                choices.append(bytes([code]) + be(n, w))
        return rng.choice(choices), nd
    nd = node("i-", (n % 2**64).to_bytes(8, "big"))
    choices = []
    if n >= -32:
        choices.append(bytes([n % 256]))
    for code, w in ((0xD0, 1), (0xD1, 2), (0xD2, 4), (0xD3, 8)):
        if n >= -(2 ** (8 * w - 1)):
            choices.append(bytes([code]) + (n % 256**w).to_bytes(w, "big"))
    return rng.choice(choices), nd


def enc_len(rng, n, fix, codes):
    """header for a length n: fix = (base, limit) or None; codes = [(code, width)...]"""
    choices = []
    if fix and n < fix[1]:
        choices.append(bytes([fix[0] + n]))
    for code, w in codes:
        if n < 256 ** w:
            choices.append(bytes([code]) + be(n, w))
    return rng.choice(choices)


def enc_str(rng, s):
    return enc_len(rng, len(s), (0xA0, 32), [(0xD9, 1), (0xDA, 2), (0xDB, 4)]) + s


def rand_value(rng, depth=0, maxdepth=3, dup_keys=False):
    """returns (bytes, node)"""
    k = rng.randrange(12 if depth < maxdepth else 9)
    if k == 0:
        return b"\xc0", NULL
    if k == 1:
        return rng.choice([(b"\xc2", FALSE), (b"\xc3", TRUE)])
    if k in (2, 3):
        n = rng.choice(INT_EDGES) if rng.random() < 0.7 else rng.randrange(-2**63, 2**64)
        return enc_int(rng, n)
    if k == 4:
        f = rng.choice(F32)
        b = struct.pack(">f", f)
        return b"\xca" + b, node("f4", b)
    if k == 5:
        f = rng.choice(F64 + F32)
        b = struct.pack(">d", f)
        return b"\xcb" + b, node("f8", b)
    if k in (6, 7):
        s = rng.choice(STRS)
        return enc_str(rng, s), node("s", s)
    if k == 8:  # bin / ext, kept verbatim with their header
        payload = bytes(rng.randrange(256) for _ in range(rng.choice([0, 1, 2, 4, 5, 8, 16, 17, 40])))
        if rng.random() < 0.5:
            raw = enc_len(rng, len(payload), None, [(0xC4, 1), (0xC5, 2), (0xC6, 4)]) + payload
        else:
            typ = bytes([rng.randrange(256)])
            fix = {1: 0xD4, 2: 0xD5, 4: 0xD6, 8: 0xD7, 16: 0xD8}
            if len(payload) in fix and rng.random() < 0.6:
                raw = bytes([fix[len(payload)]]) + typ + payload
            else:
                raw = enc_len(rng, len(payload), None, [(0xC7, 1), (0xC8, 2), (0xC9, 4)]) + typ + payload
        return raw, node("r", raw)
    if k in (9, 10):
        n = rng.choice([0, 1, 2, 3, 15, 16, 17]) if depth < 2 else rng.randrange(3)
        kids = [rand_value(rng, depth + 1, maxdepth, dup_keys) for _ in range(n)]
        hdr = enc_len(rng, n, (0x90, 16), [(0xDC, 2), (0xDD, 4)])
        return hdr + b"".join(b for b, _ in kids), node("a", c=[v for _, v in kids])
    n = rng.choice([0, 1, 2, 3, 15, 16]) if depth < 2 else rng.randrange(3)
    keys = [rng.choice(KEYS) + (b"%d" % j if n > len(KEYS) or not dup_keys else b"") for j in range(n)]
    if not dup_keys:
        keys = list(dict.fromkeys(keys))
        n = len(keys)
    kids = [rand_value(rng, depth + 1, maxdepth, dup_keys) for _ in range(n)]
    # a string value is sometimes the text of one of the map's own keys
    kids = [(enc_str(rng, kk), node("s", kk)) if rng.random() < 0.2 else kid
            for kid, kk in zip(kids, [rng.choice(keys) if keys else b"" for _ in kids])]
    hdr = enc_len(rng, n, (0x80, 16), [(0xDE, 2), (0xDF, 4)])
    body = b"".join(enc_str(rng, k_) + b for k_, (b, _) in zip(keys, kids))
    return hdr + body, node("o", c=[node("m", k_, [v]) for k_, (_, v) in zip(keys, kids)])


def nesting(v):
    if v["t"] == "a":
        return 1 + max([nesting(e) for e in v["c"]] + [0])
    if v["t"] == "o":
        return 1 + max([nesting(m["c"][0]) for m in v["c"]] + [0])
    return 0


def line(inp, lim=10, f=None, tag="", **extra):
    d = {"fmt": "msgpack", "inp": list(inp), "lim": lim, "f": f or TRUE, "o": OPTS, "tag": tag}
    d.update(extra)
    return d


def gen_valid(rng, n, wants):
    out = []
    for _ in range(n):
        # a map may repeat a key (MessagePack allows it): every entry is kept, in order
        b, v = rand_value(rng, dup_keys=rng.random() < 0.3)
        d = nesting(v)
        out.append(line(b, lim=max(d, rng.choice([d, 10, 255])), tag="valid"))
        wants.append(v)
    return out


def gen_string_reuse(rng, n, wants):
    """Small arrays and maps whose strings repeat (the de-duplication path keeps the reading buffer) and are
    then followed by longer, shorter and equal ones."""
    pool = [b"", b"a", b"ab", b"abc", b"hello", b"a" * 31, b"b" * 32, b"c" * 40, b"a\x00b"]
    out = []
    for _ in range(n):
        strs = []
        for _ in range(rng.randrange(2, 7)):
            strs.append(rng.choice(strs) if strs and rng.random() < 0.45 else rng.choice(pool))
        if rng.random() < 0.5:
            b = enc_len(rng, len(strs), (0x90, 16), [(0xDC, 2), (0xDD, 4)]) + b"".join(enc_str(rng, x) for x in strs)
            v = node("a", c=[node("s", x) for x in strs])
        else:
            keys = list(dict.fromkeys(strs))
            vals = [rng.choice(strs) for _ in keys]
            b = enc_len(rng, len(keys), (0x80, 16), [(0xDE, 2), (0xDF, 4)]) + \
                b"".join(enc_str(rng, k_) + enc_str(rng, x) for k_, x in zip(keys, vals))
            v = node("o", c=[node("m", k_, [node("s", x)]) for k_, x in zip(keys, vals)])
        out.append(line(b, lim=10, tag="reuse"))
        wants.append(v)
    return out


def bulk_session_cases():
    """Back-to-back documents whose first one is an array 32 / map 32 with 65536 and 65539 entries (and an
    array 16 with 65535): ready-made CASES (not feed lines): such inputs are beyond TLC's sequence operators, so the
    expected calls (code, element count, bytes consumed) are those of the encoder that wrote them."""
    out = []
    tail = bytes([0x81, 0xA3]) + b"end" + bytes([42])
    tailv = node("o", c=[node("m", b"end", [node("i+", (42).to_bytes(8, "big"))])])
    docs = []
    for n in (65535, 65536, 65539):
        hdr = (bytes([0xDC]) + n.to_bytes(2, "big")) if n < 65536 else (bytes([0xDD]) + n.to_bytes(4, "big"))
        docs.append((hdr + bytes([(i % 100) for i in range(n)]), n))
    for n in (65536, 65538):
        body = b"".join(bytes([0xA3]) + b"%03d" % (i % 1000) + bytes([i % 50]) for i in range(n))
        docs.append((bytes([0xDF]) + n.to_bytes(4, "big") + body, n))
    for data, n in docs:
        inp = data + tail
        out.append({"fmt": "msgpack", "inp": list(inp), "lim": 10, "f": TRUE, "o": OPTS, "tag": "bulk-session",
                    "session": [{"code": "Ok", "v": {"t": "bulk", "n": n}, "read": len(data)},
                                {"code": "Ok", "v": tailv, "read": len(tail)}]})
    return out


def gen_prefixes_and_corruptions(rng, n):
    out = []
    for _ in range(n):
        b, v = rand_value(rng, maxdepth=2)
        how = rng.randrange(5)
        if how == 0 and len(b) > 0:
            out.append(line(b[:rng.randrange(len(b))], tag="prefix"))
        elif how == 1 and len(b) > 0:
            m = bytearray(b)
            m[rng.randrange(len(m))] = rng.randrange(256)
            out.append(line(bytes(m), tag="corrupt", lim=rng.choice([0, 1, 2, 10])))
        elif how == 2:
            out.append(line(bytes(rng.randrange(256) for _ in range(rng.randrange(10))), tag="random",
                            lim=rng.choice([0, 1, 10])))
        elif how == 3:  # headers that announce huge lengths or counts
            hdr = rng.choice([b"\xdb\xff\xff\xff\xff", b"\xdb\x7f\xff\xff\xff", b"\xdd\xff\xff\xff\xff", b"\xdf\x00\x10\x00\x00",
                              b"\xc6\xff\xff\xff\xf0", b"\xc9\xff\xff\xff\xff\x01", b"\xda\xff\xff", b"\xdc\xff\xff", b"\xdb\x00\x01\x00\x00",
                              b"\x81\xdb\xff\xff\xff\xff", b"\xc5\xff\xff", b"\xc8\xff\xff\x07"])
            out.append(line(hdr + bytes(rng.randrange(256) for _ in range(rng.randrange(6))), tag="huge"))
        else:
            out.append(line(b + rng.choice([b"", b"\xc0", b"\xc1", b"\x01\x02"]), tag="trailing",
                            f=rand_filter(rng) if rng.random() < 0.4 else TRUE))
    return out


def gen_filtered(rng, n):
    out = []
    for _ in range(n):
        b, v = rand_value(rng)
        out.append(line(b, f=rand_filter(rng), tag="filter"))
    return out


def gen_depth(limits=(0, 1, 2, 10, 127, 255), big=5000):
    out = []
    fs = (TRUE, FALSE, node("o", c=[node("m", b"a", [FALSE])]), node("a", c=[FALSE]))
    for L in limits:
        for n in sorted({L, L + 1, L + 2, big}):
            if n == 0:
                continue
            shapes = {"fixarray": b"\x91" * n + b"\x01", "fixmap": (b"\x81\xa1a") * n + b"\x01",
                      "array16": b"\xdc\x00\x01" * n + b"\xc0", "map32": (b"\xdf\x00\x00\x00\x01\xa1a") * n + b"\xc0",
                      "mix": b"".join(b"\x91" if i % 2 == 0 else b"\x81\xa1k" for i in range(n)) + b"\x00"}
            for name, text in shapes.items():
                for f in fs:
                    out.append(line(text, lim=L, f=f, tag=f"depth n={n} L={L} shape={name}"))
                    out.append(line(text[:-1], lim=L, f=f, tag=f"depth-open n={n} L={L} shape={name}"))
    return out


def gen_sessions(rng, n):
    out = []
    for _ in range(n):
        k = rng.randrange(1, 5)
        data = b"".join(rand_value(rng, maxdepth=2)[0] for _ in range(k))
        out.append(line(data, tag="session", session=k + 1, f=rand_filter(rng) if rng.random() < 0.3 else None))
    return out
