"""MessagePack side of the reader checks: model checking of MsgPack.tla over byte alphabets, and the feed
oracle (MsgPackFeed.tla) with the independent encoder of msgpackgen.py."""
import os

import vlib
from checks import readercommon as rc
from checks import msgpackgen as mg


def mc_cases(chk, name, wd, byteset, maxlen, limits, filterset, maxstr=65535, emit=True, timeout=1500):
    cfg = os.path.join(wd, f"{name}.cfg")
    vlib.write_cfg(cfg, constants={
        "ByteSet": vlib.tla_const(byteset), "MaxLen": maxlen,
        "Limits": "{" + ", ".join(str(x) for x in limits) + "}", "FilterSet": vlib.tla_const(filterset),
        "EmitOn": vlib.tla_const(emit), "MaxStrLen": maxstr}, invariants=["Check"])
    r = vlib.run_tlc("MsgPackMC", cfg, os.path.join(wd, name), timeout=timeout)
    if r.violation == "property":
        chk.violation(f"MsgPack.tla violates a model-level property (config {name}): " + vlib.tlc_error_excerpt(r))
        return r, None, 0
    if not r.ok:
        raise vlib.InfraError(f"TLC failed on MsgPackMC {name}: {vlib.tlc_error_excerpt(r)}")
    dest = os.path.join(wd, f"{name}.cases.ndjson")
    n = vlib.extract_emitted(r.out_path, "CASE", dest) if emit else 0
    os.remove(r.out_path)
    return r, dest, n


def feed_cases(chk, name, wd, lines, wants=None, maxstr=65535, procs=8):
    """Like readercommon.feed_cases but on MsgPackFeed (needs the MaxStrLen constant)."""
    cfg_consts = {"MaxStrLen": maxstr}
    orig = vlib.write_cfg

    def patched(path, **kw):
        kw["constants"] = cfg_consts
        return orig(path, **kw)
    vlib.write_cfg = patched
    try:
        return rc.feed_cases(chk, name, wd, lines, wants, procs=procs, module="MsgPackFeed")
    finally:
        vlib.write_cfg = orig


def run_msgpack_feed(chk, wd, name, rng, n, bins, corrupt=True, maxstr_by_label=None):
    """valid encodings (cross-checked against the encoder's intention) + prefixes/corruptions; replay."""
    wants = []
    lines = mg.gen_valid(rng, n // 2, wants)
    if corrupt:
        lines += mg.gen_prefixes_and_corruptions(rng, n)
    maxstr_by_label = maxstr_by_label or {}
    groups = {}
    for label, b in bins:
        groups.setdefault(maxstr_by_label.get(label, default_maxstr(label)), []).append((label, b))
    total = 0
    for maxstr, members in groups.items():
        r, cases, ncases = feed_cases(chk, f"{name}-{maxstr}", wd, lines,
                                      dict(enumerate(wants)) if maxstr >= 65535 else None, maxstr=maxstr)
        chk.add_tlc(r)
        for label, b in members:
            ran, evals, problems, _ = rc.replay_cases(chk, b, cases, f"{name}/{label}")
            total += evals
            chk.cov["traces_validated_against_impl"] += ran
            for what, case in problems[:3]:
                chk.violation(what, case)
        with open(cases) as f:
            chk.sample({"feed": name, "case": rc.pretty_case(f.readline())})
        os.remove(cases)
    chk.phase(f"feed:{name}", lines=len(lines), evaluations=total)
    chk.cov["evaluations"] += total
    return total


def default_maxstr(label):
    # "big": 4-byte lengths; the instrumented allocator refuses blocks above 100 MB, minus the node header
    return {"small": 255, "big": 99999900}.get(label, 65535)
