"""C06  Every block comes from and returns to the user's allocator exactly once.

Model level: spec/SlotPool.tla (pools, LIFO free list, reference-counted string nodes, with the
code's pool-table arithmetic) is model-checked over a geometry matrix, with and without allocation
failures: Accounting, NoWrap, FreshId, Reuse (a slot is taken from a pool / a pool is added only
when the free list is empty), PoolOnlyWhenFull, RefCount.
Implementation level: executions of the library on instrumented allocators are recorded with the
guarded hook events (one per SlotPool action), every allocator call, an inspector snapshot and the
public call itself, and validated by TLC against spec/SlotPoolTrace.tla: each hook event must be
an enabled SlotPool action; every block is allocated once and released once through the allocator
that produced it; allocator / pool / string events never occur outside a mutating public call
(so never during the read-only observation); after every call the live blocks of each allocator
are exactly the pools, tables and string nodes of the documents using it (so nothing remains after
clear(), destruction, move, swap, copy-assignment); equal copied strings are stored once with
refs = users >= 1; slots in use are exactly the reachable ones.
Deserializers on their own (reader_replay, expected outcomes from JsonReader.tla / MsgPack.tla): malformed
inputs, long tokens, strings and keys on both sides of the longest string a build can store, MessagePack
encodings and corruptions; after every run the allocator ledger is empty and the memory bound holds."""
import os
import random

import vlib
from checks import doccommon as dc
from checks import memtrace, poolmc
from checks import readerchecks as rk
from checks import readercommon as rc
from checks import readergen as rg
from checks import msgpackcommon as mpc


def run(tier):
    chk = vlib.Check("C06", tier)
    wd = vlib.workdir("C06")
    quick = tier == "quick"
    geoms = ["g2x1s1", "g3x2s1", "g4x4s2", "default"]
    bins = vlib.build_many([dict(name=f"doc_record-{g}", source="doc_record.cpp", defines=dc.geom_defines(g))
                            for g in geoms] +
                           # deserialization that does not shrink the pools afterwards (ARDUINOJSON_AUTO_SHRINK=0)
                           [dict(name="doc_record-g3x2s1-noshrink", source="doc_record.cpp",
                                 defines=dc.geom_defines("g3x2s1") + ["ARDUINOJSON_AUTO_SHRINK=0"])])
    labels = geoms + ["g3x2s1-noshrink"]
    if quick:
        matrix = [(c, i, 3) for c in (1, 2, 3, 5) for i in (1, 3)]
        passed = poolmc.check_geometries(chk, wd, matrix, True, 3, 6)
        passed += poolmc.check_geometries(chk, wd, [(2, 1, 3), (3, 4, 3)], False, 3, 6)
    else:
        matrix = [(c, i, 3) for c in (1, 2, 3, 4, 5, 7) for i in (1, 2, 3, 4)]
        passed = poolmc.check_geometries(chk, wd, matrix, True, 3, 7)
        passed += poolmc.check_geometries(chk, wd, [(2, 1, 4), (3, 2, 4), (5, 3, 4), (16, 4, 4)], False, 2, 9,
                                          timeout=3000)
    chk.phase("tlc:SlotPool", configurations=passed, states=chk.cov["states"])
    memtrace.record_and_validate(chk, bins, labels, wd, events=1500 if quick else 12000,
                                 runs_per_bin=2 if quick else 6)
    # the deserializers on their own: whatever the outcome (Ok, a syntax error, NoMemory for a string or key beyond
    # the build's maximum) nothing remains allocated after the document is destroyed, nothing is released twice,
    # and the memory requested stays within the bound; expected outcomes from JsonReader.tla / MsgPack.tla
    D = rc.OPTS_DEFAULT
    small = ["ARDUINOJSON_SLOT_ID_SIZE=1", "ARDUINOJSON_STRING_LENGTH_SIZE=1", "ARDUINOJSON_POOL_CAPACITY=4"]
    rbins = rk.build_readers([("def", D, [], False), ("small", D, small, False)])
    rng = random.Random(vlib.seed() + 6)
    n = 1200 if quick else 20000
    lines = rg.gen_mutants(rng, D, n) + rg.gen_long_tokens(rng, D, n // 3)
    rk.run_feed(chk, wd, "reader-ledger", lines, None, [("def", rbins["def"]), ("small", rbins["small"])])
    rk.run_feed(chk, wd, "reader-ledger-longstrings", rg.gen_long_strings(rng, D, 255, 300 if quick else 4000), None,
                [("small", rbins["small"])])
    mpc.run_msgpack_feed(chk, wd, "reader-ledger-msgpack", rng, n // 2, [("def", rbins["def"]), ("small", rbins["small"])])
    chk.cov["distinct_nontrivial"] = chk.cov["evaluations"]
    chk.cov["rule"] = ("one evaluation = one recorded event (hook event, allocator call, or public call with "
                       "inspector snapshot) accepted by SlotPoolTrace.tla, or one deserializer run with its ledger; "
                       "SlotPool.tla itself is explored exhaustively per geometry under the stated state constraint")
    chk.cov["geometries"] = geoms
    chk.assumptions += ["fault-free executions here (failures are C05's business); shrinking reallocate never fails",
                        "the hook events are emitted by guarded code in /repo (BBLANCHON_ARDUINOJSON_VERIF)",
                        "'never touched afterwards' is observed by ASan on the instrumented allocator (blocks are "
                        "really freed and reallocate always moves)"]
    return chk.finish()
