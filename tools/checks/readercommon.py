"""Shared pieces of the reader checks (C01 C03 C10 C11 C15 C16 and the MessagePack ones):
case generation from spec/JsonReaderMC.tla / feeds, and parallel replay on reader_replay binaries."""
import json
import os
import re
import sys

sys.setrecursionlimit(100000)

import vlib

OPTS_DEFAULT = dict(comments=False, nan=False, inf=False, unicode=True)
OPTS_ALL = dict(comments=True, nan=True, inf=True, unicode=True)
OPTS_NOUNI = dict(comments=False, nan=False, inf=False, unicode=False)


def opt_defines(o):
    return [f"ARDUINOJSON_ENABLE_COMMENTS={int(o['comments'])}", f"ARDUINOJSON_ENABLE_NAN={int(o['nan'])}",
            f"ARDUINOJSON_ENABLE_INFINITY={int(o['inf'])}", f"ARDUINOJSON_DECODE_UNICODE={int(o['unicode'])}"]


def opt_name(o):
    return "c%dn%di%du%d" % (o["comments"], o["nan"], o["inf"], o["unicode"])


def mc_cases(chk, name, wd, symbolset, maxlen, limits, filterset, opts, emit=True, timeout=1500):
    cfg = os.path.join(wd, f"{name}.cfg")
    vlib.write_cfg(cfg, constants={
        "SymbolSet": vlib.tla_const(symbolset), "MaxLen": maxlen,
        "Limits": "{" + ", ".join(str(x) for x in limits) + "}",
        "FilterSet": vlib.tla_const(filterset),
        "OptComments": vlib.tla_const(opts["comments"]), "OptNan": vlib.tla_const(opts["nan"]),
        "OptInf": vlib.tla_const(opts["inf"]), "OptUnicode": vlib.tla_const(opts["unicode"]),
        "EmitOn": vlib.tla_const(emit)}, invariants=["Check"])
    r = vlib.run_tlc("JsonReaderMC", cfg, os.path.join(wd, name), timeout=timeout)
    if r.violation == "property":
        chk.violation(f"JsonReader.tla violates a model-level property (config {name}): " + vlib.tlc_error_excerpt(r))
        return r, None, 0
    if not r.ok:
        raise vlib.InfraError(f"TLC failed on JsonReaderMC {name}: {vlib.tlc_error_excerpt(r)}")
    dest = os.path.join(wd, f"{name}.cases.ndjson")
    n = vlib.extract_emitted(r.out_path, "CASE", dest) if emit else 0
    os.remove(r.out_path)
    return r, dest, n


def replay_cases(chk, binary, cases, label, parts=None, timeout=1500):
    """Returns (cases run, evaluations, list of (what, case))."""
    parts = parts or vlib.NCPU
    files = vlib.split_file(cases, parts)
    res = vlib.run_parallel([[binary, f, str(vlib.seed())] for f in files], timeout=timeout)
    ran = evals = skipped = 0
    problems = []
    stacks = {}
    stack_by_tag = {}
    for (rc, out), f in zip(res, files):
        summ = None
        file_lines = None
        for line in out.splitlines():
            if line.startswith("SUMMARY"):
                summ = vlib.kvs(line)
            elif line.startswith("STACK"):
                kv = vlib.kvs(line)
                if file_lines is None:
                    with open(f) as fh:
                        file_lines = fh.readlines()
                l = file_lines[int(kv["idx"])]
                m = re.search(r'"tag":"([^"]*)"', l)
                fm = re.search(r'"f":\{(.*?)\},"o"', l)
                stack_by_tag[(m.group(1) if m else "?", fm.group(1)[:80] if fm else "?")] = int(kv["bytes"])
            elif line.startswith(("MISMATCH", "CRASH")):
                idx = None
                for tok in line.split():
                    if tok.startswith("idx="):
                        idx = int(tok[4:])
                case = None
                if idx is not None and idx >= 0:
                    with open(f) as fh:
                        for i, l in enumerate(fh):
                            if i == idx:
                                case = l.strip()
                                break
                problems.append((f"{label}: {line[:800]}", case))
        if summ:
            ran += int(summ["ok"]) + int(summ["mismatches"])
            evals += int(summ["evals"])
            skipped += int(summ["skipped"])
            for k in ("stack0", "stack1", "stack2"):
                stacks[k] = max(stacks.get(k, 0), int(summ.get(k, 0)))
        elif not any(p[0].startswith(f"{label}: CRASH") for p in problems):
            # no SUMMARY line: the harness did not finish, whatever the exit code (an UndefinedBehaviorSanitizer
            # report aborts with exit code 1 and prints nothing on stdout)
            problems.append((f"{label}: harness died rc={rc}: {out[-1200:]}", None))
        os.remove(f)
    stacks["by_tag"] = stack_by_tag
    return ran, evals, problems, stacks


def pretty_case(line):
    try:
        c = json.loads(line)
        return {"input": bytes(c["inp"]).decode("latin-1"), "limit": c["lim"], "filter": c["f"]["t"],
                "code": c["code"], "read": c["read"]}
    except Exception:
        return line[:300]


def feed_cases(chk, name, wd, lines, wants=None, procs=8, module="JsonReaderFeed", timeout=1500):
    """Runs the feed lines through the oracle spec (several single-worker TLC processes).
    wants: {line index: value the generator meant}; a disagreement between the generator's intention
    and the specification's result is a defect of the SPECIFICATION (or of the generator) and is
    reported as an infrastructure error, never as a violation of the library.
    Returns (TlcResult, cases path, n)."""
    from concurrent.futures import ThreadPoolExecutor
    from checks import readergen
    cfg = os.path.join(wd, f"{name}.cfg")
    vlib.write_cfg(cfg, postcondition="Consumed")
    chunks = [[] for _ in range(procs)]
    index = [[] for _ in range(procs)]
    for i, ln in enumerate(lines):
        chunks[i % procs].append(ln)
        index[i % procs].append(i)
    feeds = []
    for k in range(procs):
        fp = os.path.join(wd, f"{name}-feed{k}.ndjson")
        readergen.write_feed(fp, chunks[k])
        feeds.append(fp)
    with ThreadPoolExecutor(max_workers=procs) as ex:
        futs = [ex.submit(vlib.run_tlc, module, cfg, os.path.join(wd, f"{name}-p{k}"), workers=1, timeout=timeout,
                          heap="3g", env={"FEED": feeds[k]}) for k in range(procs) if chunks[k]]
        runs = [f.result() for f in futs]
    total = vlib.TlcResult()
    dest = os.path.join(wd, f"{name}.cases.ndjson")
    n = 0
    with open(dest, "w") as out:
        for k, r in enumerate(runs):
            if not r.ok:
                raise vlib.InfraError(f"TLC failed on feed {name}: {vlib.tlc_error_excerpt(r)}")
            part = r.out_path + ".cases"
            got = vlib.extract_emitted(r.out_path, "CASE", part, dedupe=False)
            if got != len(chunks[k]):
                raise vlib.InfraError(f"feed {name}: {got} cases for {len(chunks[k])} lines")
            with open(part) as f:
                for j, ln in enumerate(f):
                    gi = index[k][j]
                    if wants and gi in wants:
                        c = json.loads(ln)
                        if c["code"] != "Ok" or not same_value(c["v"], wants[gi]):
                            raise vlib.InfraError(
                                f"specification disagrees with the generator on a valid text: input "
                                f"{bytes(c['inp'])!r} spec says {c['code']} {json.dumps(c['v'])[:300]} generator meant "
                                f"{json.dumps(wants[gi])[:300]}")
                    out.write(ln)
                    n += 1
            os.remove(part)
            os.remove(r.out_path)
            os.remove(feeds[k])
            total.generated += r.generated
            total.distinct += r.distinct
            total.wall = max(total.wall, r.wall)
    total.ok = True
    return total, dest, n


def same_value(a, b):
    if a["t"] != b["t"] or list(a["b"]) != list(b["b"]) or len(a["c"]) != len(b["c"]):
        return False
    return all(same_value(x, y) for x, y in zip(a["c"], b["c"]))
