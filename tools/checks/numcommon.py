"""C12 / C13: record numeric measurements (harness/numbers_record.cpp) and let TLC decide them
(spec/NumbersTrace.tla, constant Focus)."""
import json
import os
import re
from concurrent.futures import ThreadPoolExecutor

import vlib

FLAGS = dict(std="gnu++17", opt="-O1", extra=["-fext-numeric-literals", "-lquadmath", "-fsanitize=float-cast-overflow"])


def build(defines=(), name="numbers_record", arduino=False):
    """arduino: compiled as an Arduino sketch would be (-include Arduino.h from the repository's test helpers):
    ARDUINOJSON_ENABLE_PROGMEM=1, so the power-of-ten tables are read through the pgm_read_* polyfills."""
    flags = dict(FLAGS)
    if arduino:
        flags["extra"] = FLAGS["extra"] + ["-include", "Arduino.h"]
    return vlib.build(name, "numbers_record.cpp", defines=list(defines), **flags)


def validate(chk, focus, trace, wd, label):
    """returns (accepted, events, reject-info)"""
    sub = os.path.join(wd, "v-" + label)
    os.makedirs(sub, exist_ok=True)
    cfg = os.path.join(sub, "NumbersTrace.cfg")
    vlib.write_cfg(cfg, spec="TraceSpec", constants={"Focus": vlib.tla_const(focus)}, postcondition="Accepted")
    r = vlib.run_tlc("NumbersTrace", cfg, sub, workers=1, timeout=1500, env={"TRACE": trace}, heap="4g")
    txt = vlib._tail(r.out_path, 200000)
    m = re.search(r'<<"TRACE-DEPTH", (-?\d+), (\d+)>>', txt)
    if not m:
        raise vlib.InfraError(f"NumbersTrace did not finish on {label}: {vlib.tlc_error_excerpt(r)}")
    chk.add_tlc(r)
    depth, total = int(m.group(1)), int(m.group(2))
    rej = re.search(r'<<"REJECT", (".*")>>', txt)
    info = json.loads(json.loads(rej.group(1))) if rej else None
    ev = None
    if depth != total:
        with open(trace) as f:
            for i, line in enumerate(f):
                if i == depth:
                    ev = line.strip()
                    break
    return depth == total, total, info, ev


def run_jobs(chk, jobs):
    """jobs: list of (label, argv, outfile). Returns list of (label, outfile) that ran."""
    res = vlib.run_parallel([j[1] for j in jobs], timeout=3000)
    good = []
    for (rc, txt), (label, argv, out) in zip(res, jobs):
        if rc != 0 or "SUMMARY" not in txt:
            chk.violation(f"numbers_record {label} crashed or reported undefined behaviour rc={rc}: {txt[-1800:]}")
        else:
            good.append((label, out))
    return good


def validate_all(chk, focus, good, wd):
    total = 0
    with ThreadPoolExecutor(max_workers=8) as ex:
        for (label, out), (ok, n, info, ev) in zip(good, ex.map(lambda g: validate(chk, focus, g[1], wd, g[0]), good)):
            if ok:
                total += n
                chk.cov["traces_validated_against_impl"] += 1
            else:
                chk.violation(f"{label}: measurement rejected by NumbersTrace.tla: {info and info.get('why')} ; event: {(ev or '')[:900]}", ev)
    return total
