"""C02  serializeJson emits exactly the document, on every kind of destination (see writercommon.py,
spec/WriterTrace.tla with Focus = "C02": strict RFC 8259 parse of the compact text denotes the document,
pretty = compact modulo insignificant whitespace, same bytes and counts on every destination kind,
measureJson, buffer law for every capacity 0..length+2)."""
from checks import writercommon


def run(tier):
    return writercommon.run("C02", tier,
                            "one evaluation = one document serialized compact and pretty to every destination kind and "
                            "every buffer capacity, validated by WriterTrace.tla (Focus C02)",
                            ["the strict parser is JsonReader.tla in strict mode (RFC 8259 only, except that raw control "
                             "characters inside strings are tolerated, as C17 requires them to be emitted verbatim)"])
