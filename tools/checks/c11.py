"""C11  Filtering equals projecting the unfiltered result.
JsonReader.tla has a skip mode shaped like the code and a declarative Project(value, filter).  TLC checks,
for every explored input and 13 filters, that the filtered result is Ok and equals the projection of the
unfiltered result (model level); for seeded (text, filter) pairs the feed oracle emits both the machine
result and the projection, which must agree; every case is replayed on the library with Filter(...) (and
the filter `true` both as no filter and as Filter(true)), and the filtered run must not request more
memory, nor reach a higher peak, than the unfiltered run on the same input.  (MessagePack: see C09's
machinery; its filter cases are added there.)"""
import json
import os
import random

import vlib
from checks import readerchecks as rk
from checks import readercommon as rc
from checks import readergen as rg
from checks import msgpackcommon as mp
from checks import msgpackgen as mg


def run(tier):
    chk = vlib.Check("C11", tier)
    wd = vlib.workdir("C11")
    quick = tier == "quick"
    D = rc.OPTS_DEFAULT
    variants = [("def", D, [], False), ("all", rc.OPTS_ALL, [], False)]
    bins = rk.build_readers(variants)
    by_opts = rk.group_by_opts(bins, variants)
    rk.run_mc(chk, wd, by_opts, [("chars-f", "chars", 4 if quick else 5, [1, 2], "small", D),
                                 ("tokens-f", "tokens", 3 if quick else 4, [2], "small", D),
                                 ("string-f", "string", 4 if quick else 5, [1], "small", D)])
    rng = random.Random(vlib.seed())
    lines = rg.gen_filtered(rng, D, 4000 if quick else 60000)
    lines += [dict(l, f=rg.rand_filter(rng)) for l in rg.gen_mutants(rng, D, 1500 if quick else 20000)]
    lines += rg.gen_duplicate_keys(rng, D, filters=True)
    r, cases, n = rc.feed_cases(chk, "filtered", wd, lines)
    chk.add_tlc(r)
    # spec-level agreement between the skip-mode machine and the declarative projection
    bad = 0
    with open(cases) as f:
        for ln in f:
            c = json.loads(ln)
            if c["ucode"] == "Ok" and (c["code"] != "Ok" or not rc.same_value(c["v"], c["proj"])):
                bad += 1
                if bad <= 3:
                    chk.violation("JsonReader.tla: filtered result differs from Project(unfiltered result): "
                                  + str(rc.pretty_case(ln)), ln)
    ran, evals, problems, _ = rc.replay_cases(chk, bins["def"], cases, "filtered/def")
    for what, case in problems[:3]:
        chk.violation(what, case)
    chk.cov["traces_validated_against_impl"] += ran
    chk.cov["evaluations"] += evals
    chk.phase("feed:filtered", lines=n, evaluations=evals, spec_disagreements=bad)
    os.remove(cases)
    # the same on a build with comments, NaN and Infinity enabled (their literals and comments inside kept and
    # discarded parts)
    A = rc.OPTS_ALL
    alines = rg.gen_filtered(rng, A, 1500 if quick else 20000)
    alines += [dict(l, f=rg.rand_filter(rng)) for l in rg.gen_mutants(rng, A, 600 if quick else 8000)]
    r, cases, n = rc.feed_cases(chk, "filtered-all", wd, alines)
    chk.add_tlc(r)
    with open(cases) as f:
        for ln in f:
            c = json.loads(ln)
            if c["ucode"] == "Ok" and (c["code"] != "Ok" or not rc.same_value(c["v"], c["proj"])):
                bad += 1
                if bad <= 3:
                    chk.violation("JsonReader.tla: filtered result differs from Project(unfiltered result): "
                                  + str(rc.pretty_case(ln)), ln)
    ran, evals, problems, _ = rc.replay_cases(chk, bins["all"], cases, "filtered-all/all")
    for what, case in problems[:3]:
        chk.violation(what, case)
    chk.cov["traces_validated_against_impl"] += ran
    chk.cov["evaluations"] += evals
    chk.phase("feed:filtered-all", lines=n, evaluations=evals)
    with open(cases) as f:
        chk.sample({"case": rc.pretty_case(f.readline())})
    # MessagePack: model level (every byte string of the header alphabet, 12 filters) and seeded pairs
    r, mcases, n = mp.mc_cases(chk, "mp-headers-f", wd, "headers", 3 if quick else 4, [1, 2], "small")
    if mcases:
        chk.add_tlc(r)
        ran, evals, problems, _ = rc.replay_cases(chk, bins["def"], mcases, "mp-headers-f/def")
        for what, case in problems[:3]:
            chk.violation(what, case)
        chk.cov["traces_validated_against_impl"] += ran
        chk.cov["evaluations"] += evals
        chk.phase("tlc:msgpack-filters", inputs=r.distinct, cases=n)
    mlines = mg.gen_filtered(rng, 3000 if quick else 40000)
    mlines += [dict(l, f=rg.rand_filter(rng)) for l in mg.gen_prefixes_and_corruptions(rng, 1500 if quick else 20000)]
    r, mcases, n = mp.feed_cases(chk, "mp-filtered", wd, mlines)
    chk.add_tlc(r)
    badm = 0
    with open(mcases) as f:
        for ln in f:
            c = json.loads(ln)
            if c["ucode"] == "Ok" and (c["code"] != "Ok" or not rc.same_value(c["v"], c["proj"])):
                badm += 1
                if badm <= 3:
                    chk.violation("MsgPack.tla: filtered result differs from Project(unfiltered result)", ln)
    ran, evals, problems, _ = rc.replay_cases(chk, bins["def"], mcases, "mp-filtered/def")
    for what, case in problems[:3]:
        chk.violation(what, case)
    chk.cov["traces_validated_against_impl"] += ran
    chk.cov["evaluations"] += evals
    chk.phase("feed:msgpack-filtered", lines=n, evaluations=evals, spec_disagreements=badm)
    return rk.finish(chk, "one evaluation = one (input, filter, limit) case through one input kind; for non-trivial "
                          "filters the same input is also run unfiltered on the same allocator to compare requested and "
                          "peak bytes", rk.COMMON_ASSUMPTIONS + [
        "don't-care zone: numeric filter leaves and an explicit null entry next to a \"*\" entry",
        "syntax errors inside discarded parts may go unnoticed (skip mode), exactly as the specification's skip mode",
        "'filtering never requests more memory than the unfiltered run' is compared when the unfiltered run completes "
        "(Ok); when it stops early (a syntax error inside a part the filter discards, a capacity limit of a small "
        "build) the filtered run legitimately reads further, and the general memory bound per input byte applies"])
