"""C14  How a string is stored (linked, copied, de-duplicated) is unobservable.

Document.tla's observations (tree, serialization, numeric conversion of strings, comparisons, key
lookups) are functions of the bytes only; the one storage attribute it has is what the API reports on
purpose, JsonString::isLinked() (values "s" copied / "l" kept by address, field k of the projection):
a string set through a copying kind is stored by copy whatever the target held before.  The behaviours
TLC generates from a string-heavy instance of DocumentMC (keys that are prefixes of one another,
NUL inside, bytes >= 0x80, numeric-looking strings; equal strings shared inside a document and
removed one user at a time) are replayed once per STRING KIND: every string argument (value, key
in operator[], key in remove, lookup key, comparison operand) is supplied as string literal /
const char*, char*, char[], std::string, string_view, JsonString (copied and linked), Arduino
String and flash string in turn (storage flag dropped from both sides), and once with kinds mixed at
random within the storage class the specification's value asks for (storage flag compared).  Copied kinds have their
source buffer scribbled over right after the call."""
import os
import shutil

import vlib
from checks import doccommon as dc

KIND_NAMES = ["const char* (linked)", "char*", "std::string", "string_view", "JsonString(copied)",
              "JsonString(linked)", "char[N]", "Arduino String", "flash string"]


def run(tier):
    chk = vlib.Check("C14", tier)
    wd = vlib.workdir("C14")
    quick = tier == "quick"
    arduino = ["-include", "Arduino.h"]
    bins = vlib.build_many([
        dict(name="doc_replay-arduino-default", source="doc_replay.cpp", extra=arduino),
        dict(name="doc_replay-arduino-g2x1s1", source="doc_replay.cpp", defines=dc.geom_defines("g2x1s1"),
             extra=arduino),
    ])
    r, nd, n = dc.generate(chk, "strings",
                           dc.mc_constants(1, 1, ["a", "ab", "a%00b"], 1, 1, 2, 5, 3, "strings",
                                           emitmod=2 if quick else 1), wd)
    total = 0
    if nd:
        chk.add_tlc(r)
        chk.phase("tlc:strings", distinct=r.distinct, generated=r.generated, behaviours=n)
        with open(nd) as f:
            chk.sample({"behaviour": f.readline().strip()[:600]})
        for kind in [-1] + list(range(len(KIND_NAMES))):
            for b in (bins if (not quick or kind in (-1, 0, 2)) else bins[:1]):
                tmp = nd + ".k"
                shutil.copy(nd, tmp)
                lines, problems = dc.replay(chk, b, tmp, f"strings/kind={kind if kind < 0 else KIND_NAMES[kind]}",
                                            extra_args=[str(kind)] if kind >= 0 else [])
                total += lines
                for what, beh in problems[:2]:
                    chk.violation(what, beh)
                os.remove(tmp)
        os.remove(nd)
    # long string-heavy behaviours
    r2, streams, n2 = dc.generate_feed(chk, "sfeed", wd, candidates=24000 if quick else 300000,
                                       procs=8 if quick else 16, profile="strings")
    chk.add_tlc(r2)
    chk.phase("tlc:feed(strings)", accepted_operations=n2)
    for kind in [-1] + list(range(len(KIND_NAMES))):
        lines, problems = dc.replay_streams(chk, bins[kind % 2 if kind >= 0 else 0], streams,
                                            f"sfeed/kind={kind if kind < 0 else KIND_NAMES[kind]}",
                                            extra_args=[str(kind)] if kind >= 0 else [])
        total += lines
        for what, beh in problems[:2]:
            chk.violation(what, beh)
    for st in streams:
        os.remove(st)
    # sharing beyond what 16 bits can count (default geometry): 65540 users of one copied string, one removed, one
    # overwritten: the others intact, the reference count exact, the linked spelling equal (LimitsTrace "sharers")
    from checks import doctrace
    lim = vlib.build("limits-default", "limits.cpp", opt="-O1")
    (rcode, out), = vlib.run_parallel([[lim]], timeout=900)
    if rcode != 0 or '"e":"end"' not in out:
        chk.violation(f"sharers: limits harness died rc={rcode}: {out[-1200:]}")
    else:
        trace = os.path.join(wd, "sharers.ndjson")
        with open(trace, "w") as f:
            f.write("\n".join(l for l in out.splitlines() if l.startswith("{")) + "\n")
        ok, nl, detail = doctrace.validate_trace(chk, trace, os.path.join(wd, "sharers-v"), "sharers", module="LimitsTrace",
                                                 timeout=600)
        if not ok:
            chk.violation(detail)
        else:
            total += nl
        chk.phase("sharers", events=nl)
    chk.cov["traces_validated_against_impl"] = total
    chk.cov["evaluations"] = total
    chk.cov["distinct_nontrivial"] = total
    chk.cov["string_kinds"] = KIND_NAMES
    chk.cov["rule"] = ("one evaluation = one TLC-generated behaviour replayed under one string-kind schedule "
                       "(each of the 9 kinds forced for every string argument, plus a seeded random mixture); "
                       "the expected observation is kind-free and includes as<long long>/as<double> of strings, "
                       "serialization, key lookup by every key kind and comparison with every operand kind")
    chk.assumptions += ["zero-terminated kinds (const char*, char*, char[], Arduino String, flash) cannot carry an "
                        "embedded NUL and are given the bytes through std::string in that case",
                        "Arduino String / flash strings are the repository's own test fakes (extras/tests/Helpers)",
                        "JsonString(linked) holding an embedded NUL is not exercised (a string kept by address has no "
                        "stored length)"]
    return chk.finish()
