"""C18  Comparison operators form one coherent relation that agrees with the values.
Compare.tla defines Cmp over a table of value descriptors (numbers carry their exact rank and their rank
after conversion to double; strings / raw values their bytes; arrays and objects their children) and TLC
checks Cmp's own coherence on the whole table.  harness/compare_record.cpp builds every table value in
two documents (every storage: int32/int64/uint64/float/double, linked/copied strings, raw, nested arrays
and objects including permuted and numerically-equal ones, null, unbound) and logs the six operators for
every ordered pair (variant * variant across and inside documents, variant * C++ scalar / string in both
orders); CompareTrace.tla checks, per row: != is the negation of ==, at most one of < == > holds, <= and
>= are the disjunctions, == and the order of the mirrored pair agree, == agrees with Cmp for every pair,
< and > agree with Cmp for pairs of numbers."""
import json
import os

import vlib
from checks import comparegen, doctrace


def run(tier):
    chk = vlib.Check("C18", tier)
    wd = vlib.workdir("C18")
    bins = vlib.build_many([dict(name="compare_record", source="compare_record.cpp"),
                            dict(name="compare_record-nodouble", source="compare_record.cpp",
                                 defines=["ARDUINOJSON_POOL_CAPACITY=4", "ARDUINOJSON_SLOT_ID_SIZE=2"])])
    table = os.path.join(wd, "table.json")
    with open(table, "w") as f:
        json.dump(comparegen.table(), f)
    total = 0
    for i, b in enumerate(bins):
        out = os.path.join(wd, f"cmp{i}.ndjson")
        res = vlib.run_parallel([[b, table, out]])
        rc_, txt = res[0]
        if rc_ != 0:
            chk.violation(f"compare_record crashed rc={rc_}: {txt[-1500:]}")
            continue
        ok, n, detail = doctrace.validate_trace(chk, out, os.path.join(wd, f"v{i}"), f"compare{i}",
                                                module="CompareTrace", timeout=1500)
        if not ok:
            try:
                info = json.loads(detail.split("the specification expected ")[1].split(" ; the implementation")[0])
                names = comparegen.table()
                detail += f" ; operands: a = {names[info['i'] - 1]['name']}, b = {names[info['j'] - 1]['name']} ({info['how']})"
            except Exception:
                pass
            chk.violation(detail)
        else:
            total += n
            chk.cov["traces_validated_against_impl"] += 1
        with open(out) as f:
            f.readline()
            chk.sample({"row": f.readline().strip()})
    chk.phase("compare-trace-validation", rows=total, values=len(comparegen.table()))
    chk.cov["evaluations"] = total
    chk.cov["distinct_nontrivial"] = total
    chk.cov["rule"] = ("one evaluation = the six operators (and the three mirrored ones) on one ordered pair of operands; "
                       "76 values x 76 values variant*variant (two documents and one), plus variant * C++ operand")
    chk.assumptions += ["don't-care: NaN operands, bool*number pairs; the ORDER of non-numeric values (only the laws apply)",
                        "the ranks of the numeric landmarks are computed by the generator with exact rational arithmetic"]
    return chk.finish()
