#!/usr/bin/env python3
"""Writes MANIFEST.json from the table below (one entry per claimed property)."""
import json
import os

ROOT = os.path.dirname(os.path.dirname(os.path.abspath(__file__)))

CLAIMED = {
    "C04": dict(
        category="model_checking",
        text="Document.tla (abstract ordered-tree API machine with a reference table) is model-checked by TLC "
             "(reference stability, read-only stuttering, unique keys, live references designate) on every abstract "
             "state reachable within the bound, and every transition TLC generates is replayed on the real library "
             "built with four pool geometries, comparing return value, the whole tree through the read API, the "
             "serialization and every live reference; long seeded behaviours are filtered and annotated by the "
             "specification (DocumentFeed.tla) and replayed the same way; executions recorded from the library's "
             "own random driver are validated event by event against the same Step operator (DocumentTrace.tla).",
        design_ref="DESIGN.md §2.2, §4 C04",
        note="Bounded: exhaustive only for short histories over small alphabets (constants in the evidence file); "
             "beyond that seeded random behaviours. Trusted: TLC, the harness projection/minijson, ASan/UBSan as "
             "crash observers. Overlapping copies (source inside destination or vice versa) are excluded from the "
             "generators.",
        technique="TLA+ spec + TLC exhaustive/trace-driven generation, replay into the library, trace validation",
    ),
    "C14": dict(
        category="model_checking",
        text="Document.tla's observations are functions of string BYTES only; the one storage attribute of the model is "
             "what the API reports on purpose, JsonString::isLinked() (values \"s\" copied / \"l\" kept by address): a string "
             "set through a copying kind is stored by copy whatever the target held before (compared in the mixed-kind "
             "runs, dropped when one kind is forced). TLC generates every transition of a string-heavy bounded instance plus long spec-annotated "
             "behaviours; each is replayed on the library once per string kind (literal/const char*, char*, char[N], "
             "std::string, string_view, JsonString copied/linked, Arduino String, flash string) forced on every "
             "string argument of every entry point (set/add/operator[]/remove/lookup/compare), and with random "
             "mixtures; source buffers of copied kinds are overwritten after each call. Observation includes "
             "serialization, as<integer>/as<double> of strings, is<T>, comparisons (equality and ordering against probe "
             "texts must not depend on the operand kind) and lookups by every key kind.",
        design_ref="DESIGN.md §4 C14, §9.2",
        note="String alphabet is a fixed table (empty, NUL inside, >=0x80, numeric-looking, prefixes of one "
             "another); zero-terminated kinds cannot carry NUL. Arduino/flash kinds are the repository's fakes.",
        technique="TLA+ spec + TLC generation, replay per string-kind schedule",
    ),
    "C06": dict(
        category="model_checking",
        text="SlotPool.tla (pools, free list, ref-counted string nodes with the code's pool-table arithmetic) is "
             "model-checked over a geometry matrix with and without allocation failure (Accounting, NoWrap, FreshId, "
             "Reuse, PoolOnlyWhenFull, RefCount). Executions of the library on instrumented allocators are recorded "
             "(guarded hook event per SlotPool action, every allocator call, inspector snapshot, public call) and "
             "validated by TLC against SlotPoolTrace.tla: every hook event is an enabled action; every block is "
             "allocated once and released once through the allocator that produced it; no allocator/pool/string "
             "event outside a mutating public call; after each call the live blocks of each allocator are exactly "
             "the pools, tables and strings of the documents using it (clear, destruction, move, swap, assignment); "
             "equal copied strings stored once with refs = users; slots in use = reachable slots. The deser operation "
             "also runs as deserializeMsgPack of the same value; one build has ARDUINOJSON_AUTO_SHRINK=0. The "
             "deserializers on their own (expected outcomes from JsonReader.tla / MsgPack.tla: malformed inputs, long "
             "tokens, strings and keys on both sides of the longest storable string, MessagePack): empty ledger after "
             "every run and the memory bound.",
        design_ref="DESIGN.md §2.3, §4 C06, §9.6",
        note="Fault-free executions only (C05 covers failures). Trusted: hooks emit at the right points (demonstrated by mutation), "
             "VerifAllocator, ASan for use-after-release.",
        technique="TLA+ spec + TLC model checking per geometry; trace validation of hook/allocator events",
    ),
    "C19": dict(
        category="model_checking",
        text="SlotPool.tla transcribes the pool-table arithmetic with the code's integer widths and is model-checked "
             "over a geometry matrix (capacities that do not divide 2^bits, inline pool counts that are not powers "
             "of two): NoWrap, CapacityBound, Accounting; the arithmetic of the pinned tree before the fix is kept "
             "as a variant and must still be refuted (non-vacuity). Document.tla has no geometry constants, so the "
             "behaviours TLC generates from it are replayed on a matrix of build configurations (slot id 1/2/4, pool "
             "capacity 2..256, 1..4 inline pools, string length 1/2/4) and must give identical observations. Limit "
             "histories per configuration are validated by LimitsTrace.tla, which derives the expected counts from "
             "the geometry (MaxSlots, MaxSlots div 2, MaxLen-1/MaxLen/MaxLen+1, MaxSlots users of one string, "
             "deserialization at and one above the limit) and the clean-failure postconditions.",
        design_ref="DESIGN.md §4 C19",
        note="Limits of 4-byte ids/lengths are not reachable (only equivalence below the limit). After shrinkToFit "
             "the ids of the released tail of the last pool stay unusable (effective limit lower): documented, not "
             "exercised at the limit. Known finding: sticky overflowed() makes string add()/set() report failure "
             "after a removal until clear().",
        technique="TLA+ spec + TLC model checking over geometries; replay on a configuration matrix; limit traces "
                  "validated by TLC",
    ),
    "C05": dict(
        category="model_checking",
        text="SlotPool.tla with AllowFail=TRUE is model-checked: every allocator call of every action may fail in "
             "every interleaving and Accounting/NoWrap/RefCount still hold. On the implementation, for every "
             "TLC-generated behaviour the last operation is run with a failure at its k-th allocator call and from "
             "its k-th call on, for every k, plus random failure subsets over the whole behaviour; TLC validates "
             "each observation against FaultTrace.tla, a postcondition evaluated on the abstract pre-state "
             "Document!Step yields: failure reported (false / unbound / NoMemory), overflowed() set, tree well "
             "formed (read API and inspector), every value and reference outside the modified path unchanged, "
             "nothing allocated after clear(), document works after clear(), no leak or foreign release. The "
             "deserializers on their own: inputs whose fault-free result JsonReader.tla / MsgPack.tla computed are read "
             "with a failure at every allocator call (events 'rfault' of FaultTrace.tla: NoMemory or the input's own error, "
             "overflowed(), well-formed document, clean ledger).",
        design_ref="DESIGN.md §4 C05, §9.6",
        note="Fault enumeration is exhaustive per behaviour for single and from-k schedules (k up to 40), sampled "
             "for multi-failure subsets; a multi-failure run ends at the first operation that is no longer inside the "
             "specification's quantifier (Document!Legal: overlapping copy, dangling reference) in the state the earlier "
             "failures produced. Crashes/UB are observed by ASan/UBSan. Shrinking reallocations never fail.",
        technique="TLA+ spec + TLC (failure nondeterminism); fault enumeration on the library validated by TLC "
                  "postcondition trace spec",
    ),
}

READER_NOTE = ("Exhaustive only over the named symbol/byte alphabets up to 3-5 symbols (constants in the evidence); "
               "beyond that seeded generators whose expected results all come from TLC. The numeric value of a JSON "
               "number literal is left to C12 (harness: exact integers, strtod +-1e-6 otherwise). Crashes and "
               "out-of-bounds reads are observed by ASan/UBSan on exact-size heap copies.")
READER_TECH = "TLA+ executable reader spec + TLC bounded-exhaustive exploration and feed oracle; replay through every input kind"
for pid, text, ref in [
    ("C01", "JsonReader.tla (executable description of what deserializeJson accepts and denotes) is cross-checked "
            "against a generator that spells random values as RFC 8259 texts and remembers what it meant; each text "
            "then goes through every input kind into every destination pre-state on several builds and must give the "
            "specification's code, value (strings byte-exact, integers exact, members in order, last duplicate wins) "
            "and consumed bytes; every short token string is covered exhaustively. Also: comments on comment-enabled "
            "builds, a repeated key for every ordered pair of value kinds, objects whose string values are their own "
            "keys, number literals up to the documented 63 characters.", "DESIGN.md §4 C01"),
    ("C03", "For ANY byte string the specifications (JsonReader.tla, MsgPack.tla) give the code, the document and the "
            "bytes that may be consumed. Seeded truncations, mutations, random bytes, huge announced lengths and the "
            "bounded-exhaustive alphabets are replayed through 10-14 input kinds (exact-size heap blocks, counted "
            "reads) on 7 builds; code/document/consumption must be identical across kinds and equal to the "
            "specification; afterwards the document is inspected, serialized, cleared and reused, and the memory "
            "requested is bounded linearly in the input. Also: strings and keys on both sides of the longest storable "
            "string (MaxStr in JsonReader.tla), inputs whose slot demand sweeps across the addressable slots, "
            "MessagePack under arbitrary filter documents, block-wise std::istream, container and integral-size "
            "input overloads, both orders of the two options.", "DESIGN.md §4 C03"),
    ("C09", "MsgPack.tla's decoder is the model of MsgPackDeserializer and the definition of the format; TLC checks on "
            "every byte string of two header alphabets: prefixes give IncompleteInput/EmptyInput, 0xC1 and non-string "
            "keys give InvalidInput, results depend on consumed bytes only, Canon re-encoding round-trips. An "
            "independent encoder produces every legal encoding of random values (cross-checked with the spec), "
            "prefixes and corruptions (maps with repeated keys included); replayed with USE_DOUBLE 0/1 and a small "
            "configuration.", "DESIGN.md §4 C09"),
    ("C10", "JsonReader.tla is the executable description of the accepted dialect; TLC explores every string over 7 "
            "symbol alphabets (structure, strings, numbers, keywords, comments, \\u escapes, tokens) for limits 0..2, "
            "checks the classification properties on the model and emits every (input, result); plus seeded mutants. "
            "All cases replayed through every input kind on builds for the comment/NaN/Infinity/unicode options.",
     "DESIGN.md §4 C10"),
    ("C11", "Skip-mode machines (JSON and MessagePack) vs the declarative Project(value, filter): TLC checks equality "
            "for every explored input and 12-13 filters; the feed oracle emits both for seeded (input, filter) pairs; the "
            "library is run with Filter(...) and must agree, must not crash on any input, and must not request more "
            "memory (total and peak) than the unfiltered run of the same input (compared when the unfiltered run "
            "completes). Also on the all-options build (comments, NaN, Infinity inside kept and discarded parts) and for "
            "a repeated key under every shape of filter entry.", "DESIGN.md §4 C11"),
    ("C15", "Both reader specs track the deepest recursion level (parse and skip mode): TLC checks level <= limit and "
            "nesting() <= limit on every explored input; bracket/header families (n = L, L+1, L+2, 5000; closed and "
            "unclosed; with discarding filters; L up to 255) are replayed, the spec gives the expected code, and the "
            "stack consumed for 5000 levels must not exceed that for L+1 levels; inputs that grow in length without "
            "depth (elements, members, blanks, consecutive comments) must not consume more stack either.",
     "DESIGN.md §4 C15"),
    ("C16", "Both reader specs return the number of bytes taken from the input; TLC checks that results depend on the "
            "consumed prefix only; the feed oracle computes what each successive call returns on concatenated "
            "documents (arbitrary whitespace; back-to-back MessagePack); replayed on std::istream, byte-wise and "
            "block-wise readers, a std::istream delivering a few bytes per refill and the Arduino Stream fake, comparing "
            "documents and stop positions; sessions with a filter; a single-precision build; containers on both sides "
            "of 65536 entries followed by another document (expected calls from the encoder: beyond TLC's sequences).",
     "DESIGN.md §4 C16"),
]:
    CLAIMED[pid] = dict(category="model_checking", text=text, design_ref=ref, note=READER_NOTE, technique=READER_TECH)

WRITER_NOTE = ("Documents come from a seeded generator plus a directed boundary list; outputs are RECORDED from the "
               "library and decided by TLC (WriterTrace.tla, one Focus per property). Float printing error and the "
               "float-encoding rule are measured by the harness (libquadmath). Documents at the 16-bit size boundaries "
               "are validated by header + size only (too large for TLC sequences).")
WRITER_TECH = "TLA+ format/reader specs as the independent parser/decoder; trace validation of recorded serializer outputs"
for pid, text, ref in [
    ("C02", "WriterTrace.tla (Focus C02): the compact text parsed by JsonReader.tla in strict RFC 8259 mode denotes the "
            "document (strings byte-exact, integers digit-exact via a TLA+ decimal conversion, members in order, raw "
            "values verbatim, non-finite as null), pretty = compact modulo insignificant whitespace, identical bytes "
            "and counts on char buffer / char, unsigned char, signed char [N] for every N around the length / std::string / "
            "seekable, non-seekable and pre-filled std::ostream / custom writer / Arduino String / Print, measureJson*, "
            "and the buffer law for every capacity 0..length+2 with guard bytes; also on a single-precision build.",
     "DESIGN.md §4 C02"),
    ("C07", "WriterTrace.tla (Focus C07) on recorded round trips: MessagePack round trip byte-identical, JSON round trip "
            "equivalent, JSON->document->MessagePack->document equal to JSON->document; MsgPackMC checks at model "
            "level that Canon(Decode(e)) re-decodes to the same value and is stable for every explored byte string. "
            "Round trips go through std::string and through caller-supplied buffers; also on a single-precision build.",
     "DESIGN.md §4 C07"),
    ("C08", "WriterTrace.tla (Focus C08): MsgPack.tla's decoder (the format definition, model-checked for prefix/Canon "
            "properties) accepts the recorded bytes as exactly one object equal to the document (integers with sign "
            "over the int64/uint64 range, strings byte-exact, bin/ext verbatim, floats bit-exact or integer encoding "
            "of an integral value: FloatEncoding), counts = measureMsgPack, buffer law, string / array / map headers the "
            "narrowest for their length (TightHeaders), bin / ext values set through MsgPackBinary / MsgPackExtension.",
     "DESIGN.md §4 C08"),
]:
    CLAIMED[pid] = dict(category="model_checking", text=text, design_ref=ref, note=WRITER_NOTE, technique=WRITER_TECH)

CLAIMED["C17"] = dict(
    category="model_checking",
    text="Decoding: JsonReader.tla's \\u machine and UTF-8 encoder (whose shape is checked for every BMP code unit and the "
         "plane boundaries by ASSUME) is the oracle for every \\uXXXX unit in both hex cases, as value and key, at start / "
         "middle / end, and for surrogate pairs (quick: all highs x 64 lows, thorough: all 1M), replayed through every input "
         "kind; unpaired surrogates included. Escaping: every byte and byte pair (quick: every byte with 18 edge bytes in "
         "both orders; thorough: all 65536) as content and as key is serialized and read back; EscapeTrace.tla requires the "
         "text to unescape (by the reader spec) to the bytes, non-special bytes verbatim, identity round trip.",
    design_ref="DESIGN.md §4 C17", note=READER_NOTE, technique=READER_TECH + "; trace validation of escaping rows")
CLAIMED["C18"] = dict(
    category="model_checking",
    text="Compare.tla defines Cmp over a table of value descriptors (exact rank / double rank for numbers, bytes, children) "
         "and TLC checks its coherence on the table; the library's six operators are recorded for every ordered pair of 76 "
         "values (every storage kind, linked/copied strings, raw, nested and permuted containers, null, unbound) as "
         "variant*variant across and inside documents and variant*C++ operand in both orders; CompareTrace.tla checks the "
         "laws per row and agreement of == (all pairs) and < > (numbers) with Cmp.",
    design_ref="DESIGN.md §4 C18",
    note="The value table is fixed (boundary landmarks); numeric ranks come from exact rational arithmetic in the "
         "generator. Don't-care: NaN, bool*number, order of non-numeric values.",
    technique="TLA+ comparison spec over a landmark table; trace validation of recorded operator outcomes")

NUM_NOTE = ("TLC has 32-bit integers and no floats: the specification reasons about order (ranks of landmarks vs type limits) and "
            "shape (digits, magnitude) and applies bounds to errors that the harness MEASURES in quad precision (trusted: "
            "libquadmath, strtoflt128). The landmark table and the literal shapes come from a generator that uses exact "
            "rational arithmetic.")
CLAIMED["C12"] = dict(
    category="model_checking",
    text="NumbersTrace.tla (Focus C12) decides from the shape of each literal what must happen (exact integer in "
         "[-2^63, 2^64) with any leading zeros, finite within 1e-6 / 1e-13 by significant digits for magnitudes "
         "1e-300..1e300, infinity / zero or right exponent outside) and applies the bound to the measured error, for "
         "literals of up to thousands of digits parsed in documents and through as<T>() on strings; printing: float bit "
         "patterns (quick strided, thorough all 2^32) within 1e-6*max(1,|x|), sampled doubles over all exponents within "
         "1e-9*max(1,|x|). Also on a single-precision build (range 1e-37..1e38, gross-error bound) and on an "
         "Arduino-style build with the power-of-ten tables in program memory.",
    design_ref="DESIGN.md §4 C12", note=NUM_NOTE + " Known finding: double-stored-as-float.",
    technique="TLA+ case analysis over literal shapes; trace validation of measured conversions")
CLAIMED["C13"] = dict(
    category="model_checking",
    text="NumbersTrace.tla (Focus C13) decides for every landmark (within 2 and 1/2 of every power of two and type limit) "
         "in every storage kind and every target type: as<T>() = truncation if in range else 0, is<T>() iff stored integer "
         "that fits, agreement with wider types, v|default, nearest double/float; 32-bit storage kinds are swept (quick "
         "strided, thorough all 2^32 per kind and target) with no value allowed to convert to anything but its "
         "truncation or 0; copyArray with guard elements; numeric strings of any spelling through as<T>() on double and "
         "single-precision builds; UBSan float-cast-overflow on.",
    design_ref="DESIGN.md §4 C13", note=NUM_NOTE,
    technique="TLA+ case analysis over a landmark table; trace validation of recorded conversions; run-length sweeps")

CLAIMED["C20"] = dict(
    category="model_checking",
    text="Threads.tla abstracts operations to read/write footprints over documents, the shared default allocator and "
         "constant tables; TLC checks RaceFree for all interleavings of in-progress operations under const-only sharing "
         "and must find the documented race for Filter(JsonDocument&). On the implementation 8 threads replay "
         "spec-annotated behaviour streams (DocumentFeed.tla) on their own documents on the shared allocator while "
         "reading a shared document that spans several pools through JsonVariantConst (copy source, filter, indexing, "
         "serialization) and running their share of reader cases computed by TLC (JSON with escapes, MessagePack); each per-thread "
         "execution must equal the sequential expectation; built with ThreadSanitizer (a data race aborts) and with ASan.",
    design_ref="DESIGN.md §4 C20",
    note="Schedules are sampled, not enumerated; TSan observes the real footprints on the runs performed. The footprint "
         "table in Threads.tla is hand-derived from the code (no mutable statics) and is what TSan cross-checks.",
    technique="TLA+ footprint model checked by TLC; per-thread replay of spec-annotated behaviours under TSan")

NOT_YET = {
}

TITLES = {}
with open(os.path.join(ROOT, "properties.jsonl")) as f:
    for line in f:
        p = json.loads(line)
        TITLES[p["id"]] = p["title"]

manifest = {
    "version": 1,
    "setup_cmd": "python3 tools/setup.py",
    "hooks": {
        "guard": "BBLANCHON_ARDUINOJSON_VERIF",
        "enable": "harnesses are compiled by tools/vlib.py with -DBBLANCHON_ARDUINOJSON_VERIF=1 against /repo/src",
        "baseline_off_cmd": "cmake -G Ninja -S /repo -B /repo/_build >/dev/null && cmake --build /repo/_build && "
                            "ctest --test-dir /repo/_build -j8 --timeout 900",
        "source_commits": ["a10c7e4"],
        "add_only": True,
    },
    "engines": [
        {"name": "tlc", "path": "/opt/veriftools/tla/tla2tools.jar",
         "serves_properties": sorted(CLAIMED),
         "kind_free_text": "TLA+ specifications under /verif/spec checked by TLC; conformance harnesses under "
                           "/verif/harness replay TLC-generated behaviours into the library and record library "
                           "executions for validation by TLC"},
    ],
    "checks": [],
    "not_applicable": [],
    "notes": "All checks: python3 tools/check.py <id> <quick|thorough>; exit 0 held, 1 + VIOLATION line violated, "
             "2 machinery failure. Known findings: known_findings.json.",
}
for pid in sorted(TITLES):
    if pid in CLAIMED:
        c = CLAIMED[pid]
        manifest["checks"].append({
            "property_id": pid,
            "quick_cmd": f"python3 tools/check.py {pid} quick",
            "thorough_cmd": f"python3 tools/check.py {pid} thorough",
            "evidence_file": f"evidence/{pid}.json",
            "replay_cmd_template": f"python3 tools/check.py {pid} --replay {{path}}",
            "engine": "tlc",
            "level_claimed": {"category": c["category"], "text": c["text"], "design_ref": c["design_ref"]},
            "level_note": c["note"],
            "technique": c["technique"],
        })
    else:
        manifest["not_applicable"].append({
            "property_id": pid,
            "reason": NOT_YET.get(pid, "check not built yet in this round (planned: see DESIGN.md §4); not claimed"),
        })
with open(os.path.join(ROOT, "MANIFEST.json"), "w") as f:
    json.dump(manifest, f, indent=1)
print("claimed:", sorted(CLAIMED))
