#!/usr/bin/env python3
"""Entry point of every property check:  python3 tools/check.py <Cxx> <quick|thorough>
exit 0 = property held on everything explored; exit 1 + VIOLATION line = violated;
exit 2 = the machinery itself failed (never a VIOLATION line)."""
import importlib
import os
import sys
import traceback

sys.path.insert(0, os.path.dirname(os.path.abspath(__file__)))
import vlib  # noqa: E402


def main():
    if len(sys.argv) < 3:
        print("usage: check.py <property> <quick|thorough> [--replay path]")
        return 2
    pid, tier = sys.argv[1].upper(), sys.argv[2]
    if tier == "--replay":
        print(open(sys.argv[3]).read())
        return 0
    os.environ.setdefault("VERIF_TIER", tier)
    mod = importlib.import_module(f"checks.{pid.lower()}")
    for attempt in (1, 2):
        try:
            return mod.run(tier)
        except vlib.BuildFailure as e:
            # the harness does not compile against the current tree: the tree broke a public
            # interface the harness uses, or the harness is wrong; not a property verdict
            print(f"[{pid}] BUILD FAILURE: {e}", flush=True)
            return 2
        except vlib.InfraError as e:
            print(f"[{pid}] infrastructure error (attempt {attempt}): {e}", flush=True)
        except Exception:
            traceback.print_exc()
            print(f"[{pid}] unexpected error (attempt {attempt})", flush=True)
        # a violation that was already established stands, whatever went wrong afterwards (a library that breaks
        # the property often breaks later phases of the check as well: TLC rejecting half-written traces, harness
        # time-outs): report it instead of "machinery failed"
        chk = getattr(vlib.Check, "current", None)
        if chk is not None and chk.pid == pid and chk.violations:
            print(f"[{pid}] the check did not run to its end, but violations were already established", flush=True)
            return chk.finish()
    return 2


if __name__ == "__main__":
    sys.exit(main())
