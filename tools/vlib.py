"""Shared machinery for the property checks: building harnesses from /repo's
current tree, running TLC, extracting emitted behaviours, known findings,
evidence files, VIOLATION reporting."""
import hashlib
import json
import os
import re
import shutil
import subprocess
import sys
import time
from concurrent.futures import ThreadPoolExecutor

ROOT = os.path.dirname(os.path.dirname(os.path.abspath(__file__)))
REPO = os.environ.get("VERIF_REPO", "/repo")
SPEC = os.path.join(ROOT, "spec")
HARNESS = os.path.join(ROOT, "harness")
# (the overrides serve tools/seed_eval.py --isolated: a seeded change is evaluated on a scratch copy of the
#  repository with its own build cache, work directory, evidence and replays, so that nothing it produces
#  can be mistaken for a result on the real tree)
BUILD = os.environ.get("VERIF_BUILD", os.path.join(ROOT, ".build"))
WORK = os.environ.get("VERIF_WORK", os.path.join(ROOT, ".work"))
EVIDENCE = os.environ.get("VERIF_EVIDENCE", os.path.join(ROOT, "evidence"))
REPLAYS = os.environ.get("VERIF_REPLAYS", os.path.join(ROOT, "replays"))
GUARD = "BBLANCHON_ARDUINOJSON_VERIF"
NCPU = os.cpu_count() or 4
TLC_CP = "/opt/veriftools/tla/tla2tools.jar:/opt/veriftools/tla/CommunityModules-deps.jar"


class InfraError(Exception):
    """The machinery itself failed (compiler, TLC crash): exit 2, never a VIOLATION."""


def log(*a):
    print(*a, flush=True)


def seed():
    try:
        return int(os.environ.get("VERIF_SEED", "1"))
    except ValueError:
        return 1


def workdir(pid, sub=""):
    d = os.path.join(WORK, pid, sub) if sub else os.path.join(WORK, pid)
    shutil.rmtree(d, ignore_errors=True)
    os.makedirs(d, exist_ok=True)
    return d


# --------------------------------------------------------------------------
# building harnesses from the CURRENT /repo tree (content-hash keyed cache)

_src_hash = None


def repo_src_hash():
    global _src_hash
    if _src_hash is None:
        h = hashlib.sha256()
        for base in (os.path.join(REPO, "src"), os.path.join(REPO, "extras", "tests", "Helpers")):
            for dp, dn, fn in sorted(os.walk(base)):
                dn.sort()
                for f in sorted(fn):
                    p = os.path.join(dp, f)
                    h.update(p.encode())
                    with open(p, "rb") as fh:
                        h.update(fh.read())
        _src_hash = h.hexdigest()
    return _src_hash


def _harness_hash(paths):
    h = hashlib.sha256()
    for base in paths:
        if os.path.isdir(base):
            for dp, dn, fn in sorted(os.walk(base)):
                dn.sort()
                for f in sorted(fn):
                    with open(os.path.join(dp, f), "rb") as fh:
                        h.update(f.encode())
                        h.update(fh.read())
        else:
            with open(base, "rb") as fh:
                h.update(fh.read())
    return h.hexdigest()


SAN_FLAGS = ["-fsanitize=address,undefined", "-fno-sanitize-recover=undefined",
             "-fno-omit-frame-pointer"]


def build(name, source, defines=(), sanitize=True, opt="-O0", extra=(), compiler="g++", std="c++17"):
    """Compile harness/<source> against /repo/src as it is now. Returns the binary path."""
    src = os.path.join(HARNESS, source)
    flags = [f"-std={std}", opt, "-g", f"-D{GUARD}=1", "-DARDUINOJSON_DEBUG=0"]
    flags += [f"-D{d}" for d in defines]
    if sanitize:
        flags += SAN_FLAGS
    flags += list(extra)
    key = hashlib.sha256(
        (repo_src_hash() + _harness_hash([src, os.path.join(HARNESS, "common")]) +
         " ".join(flags) + compiler).encode()).hexdigest()[:20]
    os.makedirs(BUILD, exist_ok=True)
    out = os.path.join(BUILD, f"{name}-{key}")
    if os.path.exists(out):
        try:
            os.utime(out)
        except OSError:
            pass
        return out
    tmp = out + f".tmp{os.getpid()}"
    cmd = [compiler] + flags + ["-I", os.path.join(REPO, "src"), "-I", HARNESS,
                                "-I", os.path.join(REPO, "extras", "tests", "Helpers"),
                                src, "-o", tmp]
    t0 = time.time()
    p = subprocess.run(cmd, capture_output=True, text=True)
    if p.returncode != 0:
        raise BuildFailure(name, p.stderr[-4000:])
    os.replace(tmp, out)
    log(f"[build] {name} {time.time() - t0:.1f}s")
    return out


class BuildFailure(Exception):
    def __init__(self, name, err):
        super().__init__(f"build of {name} failed:\n{err}")
        self.name = name
        self.err = err


def build_many(specs):
    """specs: list of dicts of build() kwargs; compiled in parallel; returns list of paths."""
    with ThreadPoolExecutor(max_workers=min(len(specs), NCPU)) as ex:
        futs = [ex.submit(build, **s) for s in specs]
        return [f.result() for f in futs]


def prune_build_cache(keep_latest=60):
    try:
        files = sorted((os.path.join(BUILD, f) for f in os.listdir(BUILD)), key=os.path.getmtime)
    except FileNotFoundError:
        return
    # only binaries that have not been used for three hours go (a long-running check started before many
    # rebuilds must still find its binaries); build() refreshes the time stamp on every cache hit
    cutoff = time.time() - 3 * 3600
    for f in files[:-keep_latest]:
        try:
            if os.path.getmtime(f) < cutoff:
                os.remove(f)
        except OSError:
            pass


# --------------------------------------------------------------------------
# TLC

class TlcResult:
    def __init__(self):
        self.generated = 0
        self.distinct = 0
        self.depth = 0
        self.ok = False
        self.violation = None
        self.out_path = None
        self.wall = 0.0
        self.rc = None
        self.coverage = {}


def write_cfg(path, spec="Spec", constants=None, invariants=(), properties=(), view=None,
              action_constraints=(), constraints=(), postcondition=None, deadlock=False, init=None, next_=None):
    lines = []
    if init and next_:
        lines += [f"INIT {init}", f"NEXT {next_}"]
    else:
        lines.append(f"SPECIFICATION {spec}")
    if constants:
        lines.append("CONSTANTS")
        for k, v in constants.items():
            lines.append(f"  {k} = {v}")
    for i in invariants:
        lines.append(f"INVARIANT {i}")
    for p in properties:
        lines.append(f"PROPERTY {p}")
    if view:
        lines.append(f"VIEW {view}")
    for a in action_constraints:
        lines.append(f"ACTION_CONSTRAINT {a}")
    for c in constraints:
        lines.append(f"CONSTRAINT {c}")
    if postcondition:
        lines.append(f"POSTCONDITION {postcondition}")
    lines.append(f"CHECK_DEADLOCK {'TRUE' if deadlock else 'FALSE'}")
    with open(path, "w") as f:
        f.write("\n".join(lines) + "\n")
    return path


def tla_const(v):
    if isinstance(v, bool):
        return "TRUE" if v else "FALSE"
    if isinstance(v, int):
        return str(v)
    if isinstance(v, str):
        return '"' + v + '"'
    if isinstance(v, (set, frozenset, list, tuple)):
        return "{" + ", ".join(tla_const(x) for x in sorted(v)) + "}"
    raise TypeError(v)


def run_tlc(module, cfg, wd, workers=None, simulate=None, depth=None, timeout=900, env=None,
            heap="8g", extra=(), seed_=None, coverage=False, dfs_queue=False):
    """Runs TLC on spec/<module>.tla with config file cfg; all output goes to wd/tlc.out."""
    os.makedirs(wd, exist_ok=True)
    out_path = os.path.join(wd, f"{module}.{os.path.basename(cfg)}.out")
    meta = os.path.join(wd, "meta-" + os.path.basename(cfg))
    shutil.rmtree(meta, ignore_errors=True)
    jopts = [f"-Xmx{heap}", "-XX:+UseParallelGC", "-Xss512m", "-XX:ThreadStackSize=524288"]
    if dfs_queue:
        jopts.append("-Dtlc2.tool.queue.IStateQueue=StateDeque")
    cmd = ["java"] + jopts + ["-cp", TLC_CP, "tlc2.TLC", "-metadir", meta, "-config", cfg,
                              "-workers", str(workers or NCPU), "-noGenerateSpecTE"]
    if simulate:
        cmd += ["-simulate", simulate]
        if depth:
            cmd += ["-depth", str(depth)]
    if seed_ is not None:
        cmd += ["-seed", str(seed_)]
    if coverage:
        cmd += ["-coverage", "1"]
    cmd += list(extra)
    cmd.append(os.path.join(SPEC, module + ".tla"))
    e = dict(os.environ)
    if env:
        e.update(env)
    t0 = time.time()
    with open(out_path, "w") as out:
        try:
            p = subprocess.run(cmd, stdout=out, stderr=subprocess.STDOUT, cwd=SPEC, env=e,
                               timeout=timeout)
            rc = p.returncode
        except subprocess.TimeoutExpired:
            rc = -9
    r = TlcResult()
    r.rc = rc
    r.wall = time.time() - t0
    r.out_path = out_path
    shutil.rmtree(meta, ignore_errors=True)
    tail = _tail(out_path, 200000)
    m = re.search(r"(\d+) states generated, (\d+) distinct states found", tail)
    if m:
        r.generated, r.distinct = int(m.group(1)), int(m.group(2))
    m = re.search(r"depth of the complete state graph search is (\d+)", tail)
    if m:
        r.depth = int(m.group(1))
    if simulate:
        m = re.search(r"(\d+) states checked", tail) or re.search(r"generated (\d+) states", tail)
        if m and not r.generated:
            r.generated = int(m.group(1))
    if "Model checking completed. No error has been found" in tail or \
       (simulate and rc == 0):
        r.ok = True
    elif re.search(r"Invariant (\S+) is violated|Action property .* is violated|Temporal properties were violated|"
                   r"is violated by the initial state|The postcondition .* is violated|PostCondition", tail):
        r.violation = "property"
    elif rc == -9:
        r.violation = "timeout"
    else:
        r.violation = "error"
    return r


def _tail(path, n):
    with open(path, "rb") as f:
        f.seek(0, 2)
        sz = f.tell()
        f.seek(max(0, sz - n))
        return f.read().decode("utf-8", "replace")


def tlc_error_excerpt(r, n=3000):
    txt = _tail(r.out_path, 400000)
    i = txt.find("Error:")
    return txt[i:i + n] if i >= 0 else txt[-n:]


def extract_emitted(out_path, tag, dest, dedupe=True, limit=None):
    """TLC prints <<"TAG", "<json>">> lines (PrintT); collect the JSON payloads into dest (ndjson)."""
    prefix = f'<<"{tag}", '
    n = 0
    seen = set()
    with open(out_path, "r", errors="replace") as f, open(dest, "w") as out:
        for line in f:
            if not line.startswith(prefix):
                continue
            line = line.rstrip("\n")
            if not line.endswith(">>"):
                continue
            payload = json.loads(line[len(prefix):-2])
            if dedupe:
                h = hashlib.blake2b(payload.encode(), digest_size=12).digest()
                if h in seen:
                    continue
                seen.add(h)
            out.write(payload + "\n")
            n += 1
            if limit and n >= limit:
                break
    return n


def split_file(path, parts):
    """Split an ndjson file into <parts> files of interleaved lines; returns paths."""
    outs = [open(f"{path}.part{i}", "w") for i in range(parts)]
    with open(path) as f:
        for i, line in enumerate(f):
            outs[i % parts].write(line)
    for o in outs:
        o.close()
    return [f"{path}.part{i}" for i in range(parts)]


def kvs(line):
    """key=value tokens of a harness output line (tokens without '=' are ignored: a crashing harness may
    interleave other output with its last line)."""
    out = {}
    for tok in line.split()[1:]:
        if "=" in tok:
            k, v = tok.split("=", 1)
            out[k] = v
    return out


def run_parallel(cmds, timeout=900):
    """cmds: list of argv lists. Returns list of (rc, stdout)."""
    def one(c):
        try:
            p = subprocess.run(c, capture_output=True, text=True, timeout=timeout, errors="replace")
            # (stderr is wanted whenever the harness did not reach its SUMMARY line: an UndefinedBehaviorSanitizer
            #  report aborts with exit code 1 and no output on stdout)
            died = p.returncode not in (0, 1) or "SUMMARY" not in p.stdout
            return p.returncode, p.stdout + ("\n" + p.stderr[-3000:] if died else "")
        except subprocess.TimeoutExpired as e:
            return -9, (e.stdout or b"").decode("utf-8", "replace") if isinstance(e.stdout, bytes) else (e.stdout or "")
    with ThreadPoolExecutor(max_workers=NCPU) as ex:
        return list(ex.map(one, cmds))


# --------------------------------------------------------------------------
# known findings

def load_known():
    p = os.path.join(ROOT, "known_findings.json")
    if not os.path.exists(p):
        return {"findings": [], "fixed": []}
    with open(p) as f:
        return json.load(f)


def known_for(pid):
    return [k for k in load_known().get("findings", []) if k["property"] == pid]


# --------------------------------------------------------------------------
# check driver

class Check:
    """One run of one property's check: collects coverage, violations, known findings."""

    def __init__(self, pid, tier, level="model_checking"):
        self.pid = pid
        self.tier = tier
        self.level = level
        self.t0 = time.time()
        self.cov = {"states": 0, "transitions": 0, "traces_validated_against_impl": 0,
                    "evaluations": 0, "distinct_nontrivial": 0, "samples": [], "rule": "",
                    "phases": []}
        Check.current = self      # check.py reports violations already found if the machinery fails later
        self.assumptions = []
        self.violations = []
        self.known_hits = []
        self.wd = os.path.join(WORK, pid)
        os.makedirs(self.wd, exist_ok=True)
        os.makedirs(REPLAYS, exist_ok=True)
        # replays of an earlier run of this check and tier would be mistaken for this run's
        import glob
        for old in glob.glob(os.path.join(REPLAYS, f"{pid}-{tier}-*.txt")):
            os.remove(old)

    def phase(self, name, **kv):
        d = {"phase": name}
        d.update(kv)
        self.cov["phases"].append(d)
        log(f"[{self.pid}] {name}: " + " ".join(f"{k}={v}" for k, v in kv.items()))

    def add_tlc(self, r):
        self.cov["states"] += r.distinct
        self.cov["transitions"] += r.generated

    def sample(self, s, maxn=6):
        if len(self.cov["samples"]) < maxn:
            self.cov["samples"].append(s)

    def violation(self, what, replay_content=None, replay_name=None):
        """Record a violation; replay_content is saved under /verif/replays.  A violation that matches a
        listed known finding (every 'match' substring occurs in its description) is reported as
        KNOWN-FINDING instead; anything else of the same property is still a violation."""
        for k in known_for(self.pid):
            if all(m in what for m in k.get("match", ["\0never"])):
                if not any(fid == k["id"] for fid, _ in self.known_hits):
                    self.known(k["id"], k["what"])
                return
        name = replay_name or f"{self.pid}-{self.tier}-{len(self.violations)}.txt"
        path = os.path.join(REPLAYS, name)
        with open(path, "w") as f:
            f.write(what + "\n")
            if replay_content:
                f.write(replay_content if isinstance(replay_content, str) else json.dumps(replay_content))
                f.write("\n")
        self.violations.append((what, path))
        log(f"[{self.pid}] violation: {what[:600]}")

    def known(self, finding_id, what):
        self.known_hits.append((finding_id, what))

    def finish(self):
        wall = time.time() - self.t0
        ev = {
            "property_id": self.pid,
            "tier": self.tier,
            "seed": seed(),
            "level": self.level,
            "coverage": self.cov,
            "assumptions": self.assumptions,
            "wall_s": round(wall, 1),
            "violations": len(self.violations),
        }
        ev["coverage"]["known_findings_reproduced"] = [k for k, _ in self.known_hits]
        os.makedirs(EVIDENCE, exist_ok=True)
        with open(os.path.join(EVIDENCE, f"{self.pid}.json"), "w") as f:
            json.dump(ev, f, indent=1)
        for fid, what in self.known_hits:
            print(f"KNOWN-FINDING: property={self.pid} {fid}: {what}", flush=True)
        for what, path in self.violations[:5]:
            print(f"VIOLATION property={self.pid} replay={path}", flush=True)
        if len(self.violations) > 5:
            log(f"[{self.pid}] ... {len(self.violations) - 5} further violations recorded under replays/")
        log(f"[{self.pid}] {self.tier} done in {wall:.0f}s: "
            f"{'VIOLATIONS=' + str(len(self.violations)) if self.violations else 'property held on everything explored'}")
        prune_build_cache()
        return 1 if self.violations else 0
