------------------------------ MODULE SlotPool ------------------------------
(***************************************************************************)
(* The allocator layer of one JsonDocument, shaped like the code           *)
(* (MemoryPool, MemoryPoolList, StringPool, ResourceManager): a table of   *)
(* pools of fixed capacity, a LIFO free list threaded through released     *)
(* slots, and a list of reference-counted string nodes.  One action per    *)
(* critical section of the implementation; the guarded hooks in /repo emit *)
(* one event per action, so that recorded executions can be validated      *)
(* against this module (SlotPoolTrace.tla).                                *)
(*                                                                         *)
(* The pool-table arithmetic is transcribed from MemoryPoolList.hpp, with  *)
(* the integer widths of the code (SlotId / PoolCount are Bits wide):      *)
(*   NULL_SLOT      = 2^Bits - 1                                           *)
(*   maxPools       = ceil(NULL_SLOT / PoolCap)                            *)
(*   lastPoolCap    = NULL_SLOT - (maxPools - 1) * PoolCap                 *)
(*   table capacity doubles from InitPools, clamped to maxPools; no pool   *)
(*   is added once maxPools exist (the inline table may be larger)         *)
(*   slot id        = poolIndex * PoolCap + indexInPool                    *)
(* so that NoWrap below is CHECKED over a geometry matrix, not assumed.    *)
(* Variant "legacy" keeps the arithmetic of the pinned tree before the     *)
(* fixes (maxPools = NULL_SLOT \div PoolCap + 1, last pool one slot short, *)
(* unclamped doubling): TLC finds the wrap-around counter-examples there.  *)
(***************************************************************************)
EXTENDS Integers, Sequences, FiniteSets, TLC

CONSTANTS PoolCap,      \* ARDUINOJSON_POOL_CAPACITY
          InitPools,    \* ARDUINOJSON_INITIAL_POOL_COUNT
          Bits,         \* 8 * ARDUINOJSON_SLOT_ID_SIZE (tiny values for TLC)
          Legacy,       \* TRUE: arithmetic of the pinned tree before the fixes
          StrToks,      \* string tokens that may be interned
          AllowFail     \* TRUE: allocator calls may fail

VARIABLES pools,     \* Seq([cap, usage]) : the pools in table order; cap = 0 for a pool whose block could not be allocated
          tableCap,  \* capacity of the pool table
          free,      \* Seq(SlotId): the free list, head first
          used,      \* set of slot ids handed out and not yet released
          strings,   \* Seq([tok, refs]): string nodes, most recent first
          last       \* ghost: what the last action did (for action properties)

vars == <<pools, tableCap, free, used, strings, last>>

RECURSIVE Pow2(_)
Pow2(n) == IF n = 0 THEN 1 ELSE 2 * Pow2(n - 1)

Width == Pow2(Bits)                 \* number of values of a SlotId
Trunc(n) == n - (n \div Width) * Width     \* conversion to SlotId / PoolCount
NullSlot == Width - 1

MaxPools ==
  IF Legacy THEN Trunc(NullSlot \div PoolCap + 1)
  ELSE (NullSlot + PoolCap - 1) \div PoolCap

\* capacity given to the pool that becomes number `count` (1-based)
NewPoolCap(count) ==
  IF count = MaxPools
  THEN IF Legacy THEN PoolCap - 1 ELSE NullSlot - (MaxPools - 1) * PoolCap
  ELSE PoolCap

NewTableCap ==
  IF Legacy THEN Trunc(tableCap * 2)
  ELSE IF tableCap * 2 > MaxPools THEN MaxPools ELSE tableCap * 2

TableFull == IF Legacy THEN tableCap = MaxPools ELSE tableCap >= MaxPools

Count == Len(pools)
SumUsage == LET RECURSIVE S(_) S(i) == IF i = 0 THEN 0 ELSE pools[i].usage + S(i - 1) IN S(Count)
SeqToSet(s) == {s[i] : i \in 1..Len(s)}

Init ==
  /\ pools = <<>>
  /\ tableCap = InitPools
  /\ free = <<>>
  /\ used = {}
  /\ strings = <<>>
  /\ last = [a |-> "init", id |-> -1]

Failing == IF AllowFail THEN {TRUE, FALSE} ELSE {FALSE}

(***************************************************************************)
(* MemoryPoolList::allocSlot — three ways, in this order                   *)
(***************************************************************************)
AllocFromFreeList ==
  /\ free # <<>>
  /\ used' = used \cup {Head(free)}
  /\ free' = Tail(free)
  /\ last' = [a |-> "allocFree", id |-> Head(free)]
  /\ UNCHANGED <<pools, tableCap, strings>>

LastHasRoom == Count > 0 /\ pools[Count].usage < pools[Count].cap

AllocFromLastPool ==
  /\ free = <<>>
  /\ LastHasRoom
  /\ LET id == Trunc((Count - 1) * PoolCap + pools[Count].usage) IN
       /\ used' = used \cup {id}
       /\ last' = [a |-> "allocLast", id |-> id]
  /\ pools' = [pools EXCEPT ![Count].usage = @ + 1]
  /\ UNCHANGED <<tableCap, free, strings>>

\* increaseCapacity(): only when the table is full
\* fixed arithmetic: addPool() refuses to go beyond maxPools whatever the table capacity
AtMaxPools == ~Legacy /\ Count >= MaxPools

GrowTable ==
  /\ free = <<>> /\ ~LastHasRoom
  /\ ~AtMaxPools
  /\ Count = tableCap
  /\ ~TableFull
  /\ \E f \in Failing :
       IF f THEN /\ last' = [a |-> "growFailed", id |-> -1]
                 /\ UNCHANGED <<pools, tableCap, free, used, strings>>
       ELSE /\ tableCap' = NewTableCap
            /\ last' = [a |-> "grow", id |-> -1]
            /\ UNCHANGED <<pools, free, used, strings>>

\* addPool(): the pool entry is taken even when its block cannot be allocated
AddPool ==
  /\ free = <<>> /\ ~LastHasRoom
  /\ ~AtMaxPools
  /\ Count < tableCap
  /\ \E f \in Failing :
       /\ pools' = Append(pools, [cap |-> IF f THEN 0 ELSE NewPoolCap(Count + 1), usage |-> 0])
       /\ last' = [a |-> IF f THEN "addPoolFailed" ELSE "addPool", id |-> -1]
  /\ UNCHANGED <<tableCap, free, used, strings>>

\* MemoryPoolList::freeSlot (any slot in use may be released by the layer above)
FreeSlot ==
  \E id \in used :
    /\ used' = used \ {id}
    /\ free' = <<id>> \o free
    /\ last' = [a |-> "free", id |-> id]
    /\ UNCHANGED <<pools, tableCap, strings>>

ClearPools ==
  /\ pools' = <<>>
  /\ tableCap' = InitPools
  /\ free' = <<>>
  /\ used' = {}
  /\ strings' = <<>>
  /\ last' = [a |-> "clear", id |-> -1]

\* shrinkToFit(): the last pool keeps exactly its used slots, the table its used entries
Shrink ==
  /\ pools' = IF Count > 0 /\ pools[Count].usage > 0
              THEN [pools EXCEPT ![Count].cap = pools[Count].usage] ELSE pools
  /\ tableCap' = IF tableCap > InitPools /\ Count # tableCap THEN Count ELSE tableCap
  /\ last' = [a |-> "shrink", id |-> -1]
  /\ UNCHANGED <<free, used, strings>>

(***************************************************************************)
(* StringPool: add (hit or miss), dereference                              *)
(***************************************************************************)
StrIndex(tok) ==
  LET hits == {i \in 1..Len(strings) : strings[i].tok = tok}
  IN IF hits = {} THEN 0 ELSE CHOOSE i \in hits : TRUE

\* a string gets one more user; users are slots, so there must be a slot for it
StrAdd ==
  \E tok \in StrToks :
    /\ LET i == StrIndex(tok) IN
         IF i > 0
         THEN /\ strings' = [strings EXCEPT ![i].refs = @ + 1]
              /\ last' = [a |-> "strHit", id |-> -1]
         ELSE \E f \in Failing :
                IF f THEN /\ strings' = strings
                          /\ last' = [a |-> "strFailed", id |-> -1]
                ELSE /\ strings' = <<[tok |-> tok, refs |-> 1]>> \o strings
                     /\ last' = [a |-> "strAdd", id |-> -1]
    /\ UNCHANGED <<pools, tableCap, free, used>>

StrDeref ==
  \E i \in 1..Len(strings) :
    /\ strings' = IF strings[i].refs = 1
                  THEN SubSeq(strings, 1, i - 1) \o SubSeq(strings, i + 1, Len(strings))
                  ELSE [strings EXCEPT ![i].refs = @ - 1]
    /\ last' = [a |-> "strDeref", id |-> -1]
    /\ UNCHANGED <<pools, tableCap, free, used>>

\* the layer above never holds more string users than slots in use (+1 for the root)
StrUsers == LET RECURSIVE S(_) S(i) == IF i = 0 THEN 0 ELSE strings[i].refs + S(i - 1) IN S(Len(strings))

Next ==
  \/ AllocFromFreeList \/ AllocFromLastPool \/ GrowTable \/ AddPool
  \/ FreeSlot \/ ClearPools \/ Shrink
  \/ (StrAdd /\ StrUsers' <= Cardinality(used) + 1)
  \/ StrDeref

Spec == Init /\ [][Next]_vars

(***************************************************************************)
(* Properties                                                              *)
(***************************************************************************)
TypeOK ==
  /\ \A i \in 1..Count : pools[i].usage <= pools[i].cap /\ pools[i].cap <= PoolCap
  /\ used \subseteq 0..(Width - 1)

\* slot identifiers never wrap, never collide, never equal NULL_SLOT, and always
\* designate a slot that exists in some pool; the pool count stays within its type
NoWrap ==
  /\ NullSlot \notin used
  /\ NullSlot \notin SeqToSet(free)
  /\ \A id \in used \cup SeqToSet(free) :
        LET p == id \div PoolCap + 1 IN p <= Count /\ id - (p - 1) * PoolCap < pools[p].usage
  /\ Count < Width
  /\ tableCap < Width \/ ~Legacy

\* every slot handed out by a pool is either in use or on the free list, once
Accounting ==
  /\ used \cap SeqToSet(free) = {}
  /\ Cardinality(SeqToSet(free)) = Len(free)
  /\ Cardinality(used) + Len(free) = SumUsage

\* a handed-out id was not already in use (checked on the step that hands it out)
FreshId == [][last'.a \in {"allocFree", "allocLast"} => last'.id \notin used]_vars

\* released slots are reused before a new pool is requested
Reuse == [][last'.a \in {"addPool", "addPoolFailed", "grow", "growFailed", "allocLast"} => free = <<>>]_vars

\* a new pool only when the last one is full
PoolOnlyWhenFull == [][last'.a \in {"addPool", "addPoolFailed"} => ~LastHasRoom]_vars

\* string nodes: distinct tokens, at least one reference each
RefCount ==
  /\ \A i, j \in 1..Len(strings) : strings[i].tok = strings[j].tok => i = j
  /\ \A i \in 1..Len(strings) : strings[i].refs >= 1
  /\ \A i \in 1..Len(strings) : strings[i].refs < Width     \* the counter has the width of a slot id

\* with no failure every id below NULL_SLOT can be handed out: the capacity limit is exactly
\* MaxSlots = 2^Bits - 1 (reachability is shown by the TLC run reaching Cardinality(used) = NullSlot)
CapacityBound == Cardinality(used) <= NullSlot

Inv == TypeOK /\ NoWrap /\ Accounting /\ RefCount /\ CapacityBound

\* state constraint for TLC (the free list is a permutation of released ids: bound its length;
\* failed pool allocations leave empty pools behind: bound their number)
CONSTANTS MaxFree, MaxPoolsExplored
Bound ==
  /\ Len(free) <= MaxFree
  /\ Count <= MaxPoolsExplored
  /\ StrUsers <= 3

=============================================================================
