--------------------------- MODULE JsonReaderFeed ---------------------------
(***************************************************************************)
(* JsonReader.tla as an oracle for inputs chosen outside TLC (valid texts  *)
(* spelled by a generator that knows the value it means, truncations,      *)
(* mutations, random bytes, nesting families, document sequences).  The    *)
(* feed only supplies (input, options, limit, filter); TLC computes what   *)
(* the deserializer must return and emits one CASE per line, plus, for     *)
(* "session" lines, what a sequence of calls on the same stream returns.   *)
(***************************************************************************)
EXTENDS JsonReader, Json, IOUtils

VARIABLE l
Feed == ndJsonDeserialize(IOEnv.FEED)

Opt(ev) == [comments |-> ev.o.comments, nan |-> ev.o.nan, inf |-> ev.o.inf, unicode |-> ev.o.unicode,
            maxstr |-> IF "maxstr" \in DOMAIN ev.o THEN ev.o.maxstr ELSE 2000000000]

\* successive calls on one stream: each call starts where the previous one stopped
\* (with the same filter at every call: what a filter discards is consumed all the same)
RECURSIVE Session(_, _, _, _, _)
Session(inp, o, lim, calls, f) ==
  IF calls = 0 THEN <<>>
  ELSE LET r == DeserializeJson(inp, o, lim, f) IN
       <<[code |-> r.code, v |-> r.v, read |-> r.read]>>
       \o (IF r.code = "Ok" /\ r.read < Len(inp)
           THEN Session(SubSeq(inp, r.read + 1, Len(inp)), o, lim, calls - 1, f) ELSE <<>>)

Emit(ev) ==
  IF "session" \in DOMAIN ev
  THEN PrintT(<<"CASE", ToJson([session |-> Session(ev.inp, Opt(ev), ev.lim, ev.session, ev.f), inp |-> ev.inp,
                                lim |-> ev.lim, f |-> ev.f, o |-> ev.o, tag |-> ev.tag])>>)
  ELSE LET r == DeserializeJson(ev.inp, Opt(ev), ev.lim, ev.f)
           u == DeserializeJson(ev.inp, Opt(ev), ev.lim, TrueV) IN
       PrintT(<<"CASE", ToJson([inp |-> ev.inp, lim |-> ev.lim, f |-> ev.f, o |-> ev.o, code |-> r.code,
                                v |-> r.v, read |-> r.read, depth |-> r.depth, tag |-> ev.tag,
                                weird |-> (r.v.t = "#" /\ WeirdNumber(r.v.b)),
                                \* C11: what projecting the unfiltered result gives (when that one is Ok)
                                ucode |-> u.code,
                                proj |-> IF u.code = "Ok" THEN Project(u.v, ev.f) ELSE NullV])>>)

Init == l = 1
Next == l <= Len(Feed) /\ l' = l + 1 /\ Emit(Feed[l])
Spec == Init /\ [][Next]_l
Consumed == TLCGet("stats").diameter - 1 = Len(Feed)
=============================================================================
