----------------------------- MODULE FaultTrace -----------------------------
(***************************************************************************)
(* C05: allocation failure is reported and never corrupts the document.    *)
(*                                                                         *)
(* harness/doc_fault.cpp executes the last operation of a TLC-generated    *)
(* behaviour with an allocation failure injected at its k-th allocator     *)
(* call (or from the k-th call on), for every k, and logs what it          *)
(* observed.  The exact residue of a failed operation is not prescribed,   *)
(* so an event is accepted by POSTCONDITION, evaluated against the         *)
(* abstract state S reached by the fault-free prefix (Document!Step):      *)
(*   fired  => Reported   the call returned false / an unbound reference / *)
(*                        NoMemory (calls returning void: the flag only)   *)
(*          /\ overflowed() of the affected document is true               *)
(*   always    WellFormed the read API and the inspector see a proper tree *)
(*          /\ AgreeOutside: every value outside the path being modified   *)
(*             is unchanged; other documents are unchanged                 *)
(*          /\ nothing stays allocated after clear(), and after clear()    *)
(*             the document works normally                                 *)
(*   ~fired => the observation is exactly Document!Step's                  *)
(* "chaos" events (random failure subsets over a whole behaviour) are      *)
(* checked for the state-independent part only.                            *)
(* "rfault" events: deserializeJson / deserializeMsgPack of an input whose *)
(* fault-free result JsonReader.tla / MsgPack.tla computed, run with a     *)
(* failure at every allocator call: NoMemory and overflowed() when it      *)
(* fired, the specification's result otherwise, a well-formed document     *)
(* and a clean ledger always.                                              *)
(***************************************************************************)
EXTENDS Document, Json, IOUtils

VARIABLES l
TraceLog == ndJsonDeserialize(IOEnv.TRACE)

Fresh(nd, nr) ==
  [docs |-> [d \in 1..nd |-> [root |-> Null, ovf |-> FALSE]],
   refs |-> [r \in 1..nr |-> UnboundRef]]

RECURSIVE Run(_, _)
Run(S, ops) ==
  IF ops = <<>> THEN S
  ELSE LET R == Step(S, Head(ops)) IN Run([docs |-> R.docs, refs |-> R.refs], Tail(ops))

\* no "bad" marker anywhere (the projection adds one when the read API is inconsistent)
RECURSIVE NoBad(_)
NoBad(pv) == "bad" \notin DOMAIN pv /\ \A j \in 1..Len(pv.c) : NoBad(pv.c[j])

\* v = value before, w = value after, p = the path the operation was modifying (relative)
RECURSIVE Agree(_, _, _)
Agree(v, w, p) ==
  IF p = <<>> THEN TRUE
  ELSE LET st == Head(p) IN
    IF v.t = "n" THEN w.t \in {"n", "a", "o"}          \* promoted on the way, or left alone
    ELSE IF IsKeyStep(st) /\ v.t = "o" THEN
       /\ w.t = "o" /\ Len(w.c) >= Len(v.c)
       /\ \A j \in 1..Len(v.c) :
            /\ w.c[j].s = v.c[j].s
            /\ IF v.c[j].s = st.k /\ j = FindKey(v.c, st.k)
               THEN Agree(v.c[j].c[1], w.c[j].c[1], Tail(p))
               ELSE w.c[j] = v.c[j]
       /\ \A j \in (Len(v.c) + 1)..Len(w.c) : w.c[j].s = st.k    \* only the member being created may appear
    ELSE IF ~IsKeyStep(st) /\ v.t = "a" THEN
       /\ w.t = "a" /\ Len(w.c) >= Len(v.c)
       /\ \A j \in 1..Len(v.c) :
            IF j = st.i + 1 THEN Agree(v.c[j], w.c[j], Tail(p)) ELSE w.c[j] = v.c[j]
       /\ Len(w.c) <= Max2(Len(v.c), st.i + 1)               \* padding up to the index only
    ELSE w = v                                               \* wrong kind: nothing can be resolved

\* path (relative to the document root) below which the operation may change things
ModifiedZone(S, o) ==
  CASE o.op \in {"set", "to", "copy", "deser"} -> BasePath(S, o.tb, o.ti) \o o.tp
    [] o.op \in {"add", "addnew"} -> BasePath(S, o.tb, o.ti) \o o.tp
    [] OTHER -> <<>>

TargetDoc(S, o) ==
  IF o.op \in {"docset", "docsetv", "docto", "docclear", "shrink", "assign", "move", "swap"} THEN o.ti
  ELSE IF BaseBound(S, o.tb, o.ti) THEN BaseDoc(S, o.tb, o.ti) ELSE 0

Reported(o, ret) ==
  \/ ret \in {"false", "unbound", "NoMemory"}
  \/ o.op \in {"assign", "move", "swap", "docclear", "shrink", "rmidx", "rmkey"}   \* calls returning void

Reject(what) == PrintT(<<"REJECT", ToJson([line |-> l, why |-> what])>>) /\ FALSE
Require(c, what) == IF c THEN TRUE ELSE Reject(what)

Common(ev) ==
  /\ Require(\A d \in DOMAIN ev.obs.docs : NoBad(ev.obs.docs[d].root) /\ "bad" \notin DOMAIN ev.obs.docs[d],
             "document not well formed through the read API after the failure")
  /\ Require(\A d \in DOMAIN ev.insp : ev.insp[d] = <<>>, "inspector found structural damage after the failure")
  /\ Require(ev.live = 0, "blocks still allocated after clear()")
  /\ Require(ev.works, "document does not work normally after clear()")
  /\ Require(ev.ledger, "blocks left or foreign release after destruction")

Fault(ev) ==
  LET nd == Len(ev.obs.docs)
      nr == Len(ev.obs.refs)
      n  == Len(ev.ops)
      S  == Run(Fresh(nd, nr), SubSeq(ev.ops, 1, n - 1))
      o  == ev.ops[n]
      R  == Step(S, o)
      td == TargetDoc(S, o)
      zone == ModifiedZone(S, o)
  IN
  /\ Common(ev)
  /\ IF ~ev.fired
     THEN /\ Require(ev.ret = "skip" \/ R.ret = "dontcare" \/ ev.ret = R.ret, "no failure fired but the return value differs")
          /\ Require(\A d \in 1..nd : Strip(ev.obs.docs[d].root) = R.docs[d].root,
                     "no failure fired but the document differs from Document!Step")
     ELSE /\ Require(Reported(o, ev.ret), "allocation failed but the operation reported success")
          /\ Require(td = 0 \/ ev.obs.docs[td].ovf, "allocation failed but overflowed() is false")
          /\ Require(\A d \in 1..nd :
                        d # td /\ ~(o.op \in {"move", "swap"} /\ d = o.si)
                        => Strip(ev.obs.docs[d].root) = S.docs[d].root,
                     "a document other than the target changed")
          /\ Require(td = 0 \/ Agree(S.docs[td].root, Strip(ev.obs.docs[td].root), zone),
                     "a value outside the path being modified changed")
          /\ Require(\A r \in 1..nr :
                        ev.obs.refs[r].st = "live" /\ R.refs[r].st = "live" /\ S.refs[r].st = "live" /\ r # o.r
                        /\ ~(S.refs[r].d = td /\ Overlap(S.refs[r].p, zone))
                        => Strip(ev.obs.refs[r].v) = Get(S.docs[S.refs[r].d].root, S.refs[r].p),
                     "a reference outside the modified path no longer designates its value")

\* a deserializer run under an injected allocation failure (harness/reader_replay.cpp --faults):
\* [fmt, kind, mode, k, n, fired, code, expcode (what JsonReader.tla / MsgPack.tla give for the input),
\*  ovf, equal (document = the specification's value, when both say Ok), insp, live, works, ledger]
ReaderFault(ev) ==
  /\ Require(ev.insp = <<>>, "document not well formed after a deserialization under allocation failure")
  /\ Require(ev.live = 0, "blocks still allocated after clear()")
  /\ Require(ev.works, "document does not work normally after clear()")
  /\ Require(ev.ledger, "blocks left, released twice or released through a foreign allocator")
  /\ IF ev.fired
     THEN \* reported: NoMemory, or the error the input deserves anyway (which of two applicable errors comes
          \* out is not prescribed: "{/}" fails to allocate the key buffer and then meets the wrong character)
          /\ Require(ev.code = "NoMemory" \/ (ev.expcode # "Ok" /\ ev.code = ev.expcode),
                     "an allocation failed but the deserializer reported neither NoMemory nor the input's own error")
          /\ Require(ev.ovf, "an allocation failed but overflowed() is false")
     ELSE /\ Require(ev.code = ev.expcode, "no failure fired but the result code differs from the specification's")
          /\ Require(ev.equal, "no failure fired but the document differs from the specification's value")
          /\ Require(ev.code = "Ok" => ~ev.ovf, "Ok but overflowed()")

Init == l = 1
Next ==
  /\ l <= Len(TraceLog)
  /\ l' = l + 1
  /\ LET ev == TraceLog[l] IN
       IF ev.e = "fault" THEN Fault(ev) ELSE IF ev.e = "rfault" THEN ReaderFault(ev) ELSE Common(ev)

TraceSpec == Init /\ [][Next]_l
TraceInv == TRUE
Accepted ==
  /\ PrintT(<<"TRACE-DEPTH", TLCGet("stats").diameter - 1, Len(TraceLog)>>)
  /\ TLCGet("stats").diameter - 1 = Len(TraceLog)
=============================================================================
