---------------------------- MODULE DocumentFeed ----------------------------
(***************************************************************************)
(* Long random behaviours of Document.tla.  TLC's simulation mode has to   *)
(* enumerate every successor of a state before choosing one, which is too  *)
(* slow for the large operation set, and RandomElement is deterministic    *)
(* per state; so the CHOICE of operations comes from a seeded feed file    *)
(* (tools/checks/docfeed.py writes candidate operations without knowing    *)
(* whether they are legal) while everything else comes from the            *)
(* specification: TLC decides which candidates are inside the quantifier   *)
(* (Legal, WithinBounds), applies Document!Step and emits, for every       *)
(* accepted operation, the event the implementation must reproduce:        *)
(*   <<"BEHAVIOUR", {"e":"op","op":..,"ret":..,"obs":..}>>                 *)
(*   <<"BEHAVIOUR", {"e":"reset","nd":..,"nr":..}>>                        *)
(* The harness replays that stream statefully (doc_replay --stream).       *)
(***************************************************************************)
EXTENDS Document, Json, IOUtils

CONSTANTS MaxNodes, MaxDepth, AllowAlias

VARIABLES docs, refs, l

fvars == <<docs, refs, l>>
St == [docs |-> docs, refs |-> refs]

Feed == ndJsonDeserialize(IOEnv.FEED)

WithinBounds(S) ==
  \A d \in DOMAIN S.docs :
     Nodes(S.docs[d].root) <= MaxNodes /\ Nesting(S.docs[d].root) <= MaxDepth

FeedInit == l = 1 /\ docs = <<>> /\ refs = <<>>

FeedNext ==
  /\ l <= Len(Feed)
  /\ l' = l + 1
  /\ LET ev == Feed[l] IN
       IF ev.e = "reset"
       THEN /\ docs' = [d \in 1..ev.nd |-> [root |-> Null, ovf |-> FALSE]]
            /\ refs' = [r \in 1..ev.nr |-> UnboundRef]
            /\ PrintT(<<"BEHAVIOUR", ToJson(ev)>>)
       ELSE IF (IF AllowAlias THEN LegalWithAlias(St, ev.op) ELSE Legal(St, ev.op)) /\ WithinBounds(Step(St, ev.op))
            THEN LET R == Step(St, ev.op) IN
                 /\ docs' = R.docs
                 /\ refs' = R.refs
                 /\ PrintT(<<"BEHAVIOUR",
                            ToJson([e |-> "op", op |-> ev.op, ret |-> R.ret,
                                    obs |-> Obs([docs |-> R.docs, refs |-> R.refs])])>>)
            ELSE UNCHANGED <<docs, refs>>

FeedSpec == FeedInit /\ [][FeedNext]_fvars

FeedInv ==
  /\ docs # <<>> => RefsDesignate(St)
  /\ \A d \in DOMAIN docs : UniqueKeys(docs[d].root)

Consumed ==
  /\ PrintT(<<"FEED-DEPTH", TLCGet("stats").diameter - 1, Len(Feed)>>)
  /\ TLCGet("stats").diameter - 1 = Len(Feed)
=============================================================================
