------------------------------- MODULE Threads -------------------------------
(***************************************************************************)
(* C20: footprint model.  Each thread owns some documents; one further     *)
(* document S is shared.  Every library operation is abstracted to the set *)
(* of resources it reads and the set it writes, as the code has them:      *)
(*   doc(d)     pools, strings and root of document d                      *)
(*   "alloc"    the process-wide DefaultAllocator (malloc/free: safe to    *)
(*              call concurrently, modelled as internally synchronised)    *)
(*   "tables"   constant tables (powers of ten, escape table): read only   *)
(* An operation is in progress between Begin and End; two operations of    *)
(* different threads that are in progress at the same time must not        *)
(* conflict (one writes what the other reads or writes).  The library      *)
(* keeps no other mutable state, so the footprints below are complete;     *)
(* the conformance run (TSan on the real code) observes the real           *)
(* footprints.                                                             *)
(* With SharedByRef = TRUE a thread may pass the shared document as        *)
(* Filter(JsonDocument&), which shrinks (writes) it: TLC then finds the    *)
(* documented race.                                                        *)
(***************************************************************************)
EXTENDS Integers, FiniteSets, TLC

CONSTANTS Threads, DocsOf, SharedByRef      \* DocsOf[t] = documents owned by thread t; "S" is the shared one

VARIABLE inop       \* inop[t] = the operation thread t is executing, or "idle"

Op(name, r, w) == [name |-> name, r |-> r, w |-> w]
Idle == Op("idle", {}, {})

OpsOf(t) ==
  LET own == DocsOf[t] IN
     {Op("mutate", {"tables"}, {d}) : d \in own}                       \* set/add/remove/clear/to<>/shrinkToFit
  \cup {Op("read", {d, "tables"}, {}) : d \in own}                      \* as<T>/is<T>/size/iterate/serialize/compare
  \cup {Op("deserialize", {"tables"}, {d}) : d \in own}
  \cup {Op("copy-from-shared", {"S", "tables"}, {d}) : d \in own}       \* dst.set(JsonVariantConst of S)
  \cup {Op("filter-by-shared-const", {"S", "tables"}, {d}) : d \in own} \* Filter(JsonVariantConst)
  \cup (IF SharedByRef THEN {Op("filter-by-shared-ref", {"tables"}, {d, "S"}) : d \in own} ELSE {})
  \cup {Op("copy-between-own", {d1, "tables"}, {d2}) : d1 \in own, d2 \in own}

Init == inop = [t \in Threads |-> Idle]
Begin(t) == inop[t] = Idle /\ \E o \in OpsOf(t) : inop' = [inop EXCEPT ![t] = o]
End(t) == inop[t] # Idle /\ inop' = [inop EXCEPT ![t] = Idle]
Next == \E t \in Threads : Begin(t) \/ End(t)
Spec == Init /\ [][Next]_inop

Conflict(a, b) == (a.w \cap (b.r \cup b.w)) # {} \/ (b.w \cap a.r) # {}

RaceFree == \A t1, t2 \in Threads : t1 # t2 => ~Conflict(inop[t1], inop[t2])

\* documents are owned by exactly one thread
OwnershipOK == \A t1, t2 \in Threads : t1 # t2 => DocsOf[t1] \cap DocsOf[t2] = {}
ASSUME OwnershipOK
=============================================================================
