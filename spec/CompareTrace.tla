---------------------------- MODULE CompareTrace ----------------------------
(***************************************************************************)
(* harness/compare_record.cpp logs, for the value table of its first line, *)
(* the outcome of the six operators for every ordered pair of values       *)
(* (variant * variant, same and different documents) and for every value   *)
(* against every C++ scalar / string operand in both orders:               *)
(*   {"e":"table","vals":[descriptors]}                                    *)
(*   {"e":"pair","i":i,"j":j,"eq":..,"ne":..,"lt":..,"le":..,"gt":..,      *)
(*    "ge":..,"how":"vv"|"vs"|"sv"}                                        *)
(* Every row must satisfy the coherence laws and agree with Compare!Cmp.   *)
(***************************************************************************)
EXTENDS Compare, Json, IOUtils

VARIABLES l, T
TraceLog == ndJsonDeserialize(IOEnv.TRACE)

Reject(what, ev) == PrintT(<<"REJECT", ToJson([line |-> l, why |-> what, i |-> ev.i, j |-> ev.j, how |-> ev.how])>>) /\ FALSE
Require(c, what, ev) == IF c THEN TRUE ELSE Reject(what, ev)

Pair(ev) ==
  LET c == Cmp(T, ev.i, ev.j) IN
  \* the laws that involve one ordered pair
  /\ Require(ev.ne = ~ev.eq, "a != b is not the negation of a == b", ev)
  /\ Require(~(ev.lt /\ ev.eq) /\ ~(ev.gt /\ ev.eq) /\ ~(ev.lt /\ ev.gt), "more than one of a < b, a == b, a > b holds", ev)
  /\ Require(ev.le = (ev.lt \/ ev.eq), "a <= b is not (a < b or a == b)", ev)
  /\ Require(ev.ge = (ev.gt \/ ev.eq), "a >= b is not (a > b or a == b)", ev)
  \* agreement with the values
  /\ IF DontCare(T, ev.i, ev.j) THEN TRUE ELSE
       /\ Require(ev.eq = (c = "EQ"), "a == b disagrees with the values", ev)
       \* the property defines an ORDER between numbers only (by value); for every other pair the
       \* laws above are all that is required of < and >
       /\ IF ~(IsNum(T[ev.i]) /\ IsNum(T[ev.j])) THEN TRUE ELSE
            /\ Require(ev.lt = (c = "LT"), "a < b disagrees with the values", ev)
            /\ Require(ev.gt = (c = "GT"), "a > b disagrees with the values", ev)

\* symmetry laws need the row of the mirrored pair: the harness logs it in the same row
Mirror(ev) ==
  /\ Require(ev.eq = ev.meq, "a == b but not b == a", ev)
  /\ Require(ev.lt = ev.mgt, "a < b but not b > a", ev)
  /\ Require(ev.gt = ev.mlt, "a > b but not b < a", ev)
  /\ Require(ev.ne = ev.mne, "a != b but not b != a", ev)
  /\ Require(ev.le = ev.mge, "a <= b but not b >= a", ev)
  /\ Require(ev.ge = ev.mle, "a >= b but not b <= a", ev)

Init == l = 1 /\ T = <<>>
Next ==
  /\ l <= Len(TraceLog)
  /\ l' = l + 1
  /\ LET ev == TraceLog[l] IN
       IF ev.e = "table" THEN T' = ev.vals /\ Coherent(ev.vals)
       ELSE Pair(ev) /\ Mirror(ev) /\ UNCHANGED T
TraceSpec == Init /\ [][Next]_<<l, T>>
TraceInv == TRUE
Accepted ==
  /\ PrintT(<<"TRACE-DEPTH", TLCGet("stats").diameter - 1, Len(TraceLog)>>)
  /\ TLCGet("stats").diameter - 1 = Len(TraceLog)
=============================================================================
