----------------------------- MODULE LimitsTrace -----------------------------
(***************************************************************************)
(* C19, limit edges.  The capacity limits follow from the geometry alone   *)
(* (SlotPool.tla: slot ids 0 .. NULL_SLOT-1, hence MaxSlots = NULL_SLOT;   *)
(* string lengths 0 .. MaxLen): this module computes, for the geometry a   *)
(* harness binary reports, how many operations of each scenario must       *)
(* succeed before the first one fails, and checks every recorded scenario  *)
(* (harness/limits.cpp) against it, together with the clean-failure        *)
(* postconditions: the failing call reports failure, overflowed() is set,  *)
(* the document is intact and well formed, it is usable again after a      *)
(* removal, and after clear(); nothing is leaked.                          *)
(***************************************************************************)
EXTENDS Integers, Sequences, TLC, Json, IOUtils

VARIABLES l, geo
lvars == <<l, geo>>

TraceLog == ndJsonDeserialize(IOEnv.TRACE)

\* a value stored in place needs its element slot only; a 64-bit integer or a double that is not
\* a float needs one extension slot more; a member needs a key slot and a value slot
MaxSlots == geo.null
ExpectedOk(scn) ==
  CASE scn = "elems32" -> MaxSlots
    [] scn = "elems64" -> MaxSlots \div 2
    [] scn = "members" -> MaxSlots \div 2
    [] scn = "shared"  -> MaxSlots
    [] scn = "deser-at" -> MaxSlots
    [] scn = "deser-over" -> -1
    [] scn = "strlen-below" -> 1
    [] scn = "strlen-at" -> 1
    [] scn = "strlen-over" -> 0
    [] scn = "sharers" -> 65540        \* users of one copied string, far below the limits of 4-byte slot ids

\* one-slot values that still fit after the two-slot scenario stopped
ExpectedExtra(scn) ==
  CASE scn = "elems64" -> MaxSlots - 2 * (MaxSlots \div 2)
    [] scn = "strlen-below" -> -1
    [] scn = "strlen-at" -> 0
    [] scn = "strlen-over" -> 1
    [] OTHER -> 0

Reject(what) == PrintT(<<"REJECT", ToJson([line |-> l, why |-> what])>>) /\ FALSE
Require(c, what) == IF c THEN TRUE ELSE Reject(what)

Limit(ev) ==
  /\ Require(ev.scn \in {"elems32", "elems64", "members", "shared", "deser-at", "deser-over",
                         "strlen-below", "strlen-at", "strlen-over", "sharers"},
             "unknown scenario or ledger not empty after destruction: " \o ev.scn)
  /\ Require(ev.ok = ExpectedOk(ev.scn), "number of operations that succeeded before the limit is not the model's")
  /\ Require(ev.extra = ExpectedExtra(ev.scn), "slots left after the limit was hit differ (the failed operation leaked or wrapped)")
  /\ Require(ev.intact, "document not intact / not well formed after the limit was hit")
  /\ Require(ev.clearok, "document not usable after clear()")
  /\ Require(ev.ledger, "blocks left after destruction")
  /\ CASE ev.scn \in {"elems32", "elems64", "members", "shared"} ->
            /\ Require(~ev.failret, "the operation beyond the limit reported success")
            /\ Require(ev.ovf, "overflowed() not set at the limit")
            /\ Require(ev.reusable, "document not usable again after a removal")
       [] ev.scn = "sharers" ->
            \* nothing is refused: more users than 16 bits can count share one copied string
            /\ Require(~ev.failret /\ ~ev.ovf, "an addition far below the limits was refused")
            /\ Require(ev.reusable, "the shared string is not usable after one user was removed")
       [] ev.scn = "deser-at" ->
            /\ Require(ev.failret, "an input that exactly fits was not accepted")
            /\ Require(~ev.ovf, "overflowed() set although the input fits")
       [] ev.scn = "deser-over" ->
            /\ Require(ev.failret, "an input one element too large did not give NoMemory")
            /\ Require(ev.ovf, "overflowed() not set at the limit")
       [] ev.scn \in {"strlen-below", "strlen-at"} ->
            /\ Require(ev.failret /\ ~ev.ovf, "a string within the length limit was refused")
            /\ Require(ev.reusable, "a string within the length limit was refused by the deserializer")
       [] ev.scn = "strlen-over" ->
            /\ Require(~ev.failret /\ ev.ovf, "a string beyond the length limit was not refused cleanly")
            /\ Require(ev.reusable, "a string beyond the length limit did not give NoMemory in the deserializer")

Init == l = 1 /\ geo = [null |-> -1, maxlen |-> -1]

Next ==
  /\ l <= Len(TraceLog)
  /\ l' = l + 1
  /\ LET ev == TraceLog[l] IN
       CASE ev.e = "geo" -> geo' = [null |-> ev.null, maxlen |-> ev.maxlen]
         [] ev.e = "limit" -> Limit(ev) /\ UNCHANGED geo
         [] ev.e = "end" -> UNCHANGED geo

TraceSpec == Init /\ [][Next]_lvars

Accepted ==
  /\ PrintT(<<"TRACE-DEPTH", TLCGet("stats").diameter - 1, Len(TraceLog)>>)
  /\ TLCGet("stats").diameter - 1 = Len(TraceLog)
TraceInv == TRUE
=============================================================================
