----------------------------- MODULE MsgPackFeed -----------------------------
(***************************************************************************)
(* MsgPack.tla as an oracle for inputs chosen outside TLC (encodings of    *)
(* random values with arbitrary legal width choices, their prefixes and    *)
(* corruptions, headers announcing huge lengths, back-to-back objects).    *)
(***************************************************************************)
EXTENDS MsgPack, Json, IOUtils

VARIABLE l
Feed == ndJsonDeserialize(IOEnv.FEED)

\* successive calls on one stream, with the same filter at every call (what a filter discards is
\* consumed all the same)
RECURSIVE Session(_, _, _, _)
Session(inp, lim, calls, f) ==
  IF calls = 0 THEN <<>>
  ELSE LET r == DecodeMsgPack(inp, lim, f) IN
       <<[code |-> r.code, v |-> r.v, read |-> r.read]>>
       \o (IF r.code = "Ok" /\ r.read < Len(inp)
           THEN Session(SubSeq(inp, r.read + 1, Len(inp)), lim, calls - 1, f) ELSE <<>>)

Emit(ev) ==
  IF "session" \in DOMAIN ev
  THEN PrintT(<<"CASE", ToJson([fmt |-> "msgpack", session |-> Session(ev.inp, ev.lim, ev.session, ev.f), inp |-> ev.inp,
                                lim |-> ev.lim, f |-> ev.f, o |-> ev.o, tag |-> ev.tag])>>)
  ELSE LET r == DecodeMsgPack(ev.inp, ev.lim, ev.f)
           u == DecodeMsgPack(ev.inp, ev.lim, TrueV) IN
       PrintT(<<"CASE", ToJson([fmt |-> "msgpack", inp |-> ev.inp, lim |-> ev.lim, f |-> ev.f, o |-> ev.o,
                                code |-> r.code, v |-> r.v, read |-> r.read, depth |-> r.depth, tag |-> ev.tag,
                                weird |-> FALSE, ucode |-> u.code,
                                proj |-> IF u.code = "Ok" THEN Project(u.v, ev.f) ELSE NullV,
                                canon |-> IF r.code = "Ok" THEN Canon(r.v) ELSE <<>>])>>)

Init == l = 1
Next == l <= Len(Feed) /\ l' = l + 1 /\ Emit(Feed[l])
Spec == Init /\ [][Next]_l
Consumed == TLCGet("stats").diameter - 1 = Len(Feed)
=============================================================================
