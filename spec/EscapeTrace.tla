----------------------------- MODULE EscapeTrace -----------------------------
(***************************************************************************)
(* C17, escaping direction.  harness/escape_record.cpp puts every byte and *)
(* every pair of bytes into a string (and a key), serializes and           *)
(* deserializes, and logs rows {"a":a,"b":b,"json":[..],"back":[..]}       *)
(* (b = -1 for a single byte).  Decided here:                              *)
(*  - the text is a quoted string whose content, unescaped by the reader   *)
(*    specification (JsonReader.tla), is exactly the bytes: serialization  *)
(*    followed by deserialization is the identity;                         *)
(*  - a byte other than quote, backslash, 08 0C 0A 0D 09 and 00 appears    *)
(*    verbatim;                                                            *)
(*  - what the library read back equals the bytes.                         *)
(* Model level (Unicode): for every code unit / pair fed through           *)
(* JsonReaderFeed the expected bytes are Utf8(cp) of JsonReader.tla, whose *)
(* shape (length classes 0x80 / 0x800 / 0x10000, continuation bytes) is    *)
(* checked below for all code points by ASSUME.                            *)
(***************************************************************************)
EXTENDS JsonReader, Json, IOUtils

VARIABLE l
TraceLog == ndJsonDeserialize(IOEnv.TRACE)

Special == {34, 92, 8, 12, 10, 13, 9, 0}

\* independent decoder of one UTF-8 sequence
Utf8Decode(bs) ==
  CASE Len(bs) = 1 -> bs[1]
    [] Len(bs) = 2 -> (bs[1] - 192) * 64 + (bs[2] - 128)
    [] Len(bs) = 3 -> (bs[1] - 224) * 4096 + (bs[2] - 128) * 64 + (bs[3] - 128)
    [] Len(bs) = 4 -> (bs[1] - 240) * 262144 + (bs[2] - 128) * 4096 + (bs[3] - 128) * 64 + (bs[4] - 128)

Utf8WellFormed(cp) ==
  LET e == Utf8(cp) IN
  /\ Utf8Decode(e) = cp
  /\ Len(e) = (IF cp < 128 THEN 1 ELSE IF cp < 2048 THEN 2 ELSE IF cp < 65536 THEN 3 ELSE 4)   \* shortest form
  /\ \A i \in 2..Len(e) : e[i] >= 128 /\ e[i] <= 191
  /\ (Len(e) = 1 => e[1] < 128) /\ (Len(e) = 2 => e[1] >= 194 /\ e[1] <= 223)
  /\ (Len(e) = 3 => e[1] >= 224 /\ e[1] <= 239) /\ (Len(e) = 4 => e[1] >= 240 /\ e[1] <= 244)

\* all Basic Multilingual Plane code units (surrogates excluded) and the boundaries of the other planes
ASSUME \A cp \in (0..55295) \cup (57344..65535) : Utf8WellFormed(cp)
ASSUME \A hi \in {0, 1, 511, 512, 1023} : \A lo \in 0..1023 : Utf8WellFormed(65536 + hi * 1024 + lo)

Reject(what) == PrintT(<<"REJECT", ToJson([line |-> l, why |-> what])>>) /\ FALSE
Require(c, what) == IF c THEN TRUE ELSE Reject(what)

Opts == [comments |-> FALSE, nan |-> FALSE, inf |-> FALSE, unicode |-> TRUE]

Row(ev) ==
  LET bytes == IF ev.b < 0 THEN <<ev.a>> ELSE <<ev.a, ev.b>>
      r == DeserializeJson(ev.json, Opts, 10, TrueV)
      plain == \A i \in 1..Len(bytes) : bytes[i] \notin Special
  IN
  /\ Require(Len(ev.json) >= 2 /\ ev.json[1] = 34 /\ ev.json[Len(ev.json)] = 34, "serialized string is not quoted")
  /\ Require(r.code = "Ok" /\ r.v = StrB(bytes) /\ r.read = Len(ev.json),
             "the serialized text does not unescape to the original bytes")
  /\ Require(plain => ev.json = <<34>> \o bytes \o <<34>>, "a byte that needs no escaping was changed")
  /\ Require(ev.back = bytes, "serializeJson followed by deserializeJson did not return the identical bytes")
  /\ Require(ev.key, "the same bytes used as a key did not survive the round trip")

Init == l = 1
Next == l <= Len(TraceLog) /\ l' = l + 1 /\ Row(TraceLog[l])
TraceSpec == Init /\ [][Next]_l
TraceInv == TRUE
Accepted ==
  /\ PrintT(<<"TRACE-DEPTH", TLCGet("stats").diameter - 1, Len(TraceLog)>>)
  /\ TLCGet("stats").diameter - 1 = Len(TraceLog)
=============================================================================
