---------------------------- MODULE DocumentTrace ----------------------------
(***************************************************************************)
(* Trace validation (implementation -> specification) for Document.tla.    *)
(* The harness harness/doc_record.cpp drives the real library with its own *)
(* random generator and logs one ndjson event per public call:             *)
(*   {"e":"op", "op":<op record>, "ret":<string>, "obs":<observation>}     *)
(*   {"e":"reset", "nd":<docs>, "nr":<refs>}      a fresh world            *)
(* Every event must be explained by Document!Step from the current model   *)
(* state: the operation must be Legal, the logged return value and the     *)
(* logged observation (every document projected through the read API, its  *)
(* serialization, every usable reference) must equal the model's.          *)
(* Accepted iff every line is consumed (POSTCONDITION Accepted).           *)
(***************************************************************************)
EXTENDS Document, Json, IOUtils

VARIABLES docs, refs, l

tvars == <<docs, refs, l>>
St == [docs |-> docs, refs |-> refs]

TraceLog == ndJsonDeserialize(IOEnv.TRACE)

Fresh(nd, nr) ==
  [docs |-> [d \in 1..nd |-> [root |-> Null, ovf |-> FALSE]],
   refs |-> [r \in 1..nr |-> UnboundRef]]

\* the harness logs "skip" for references it will not touch (it uses a
\* conservative liveness rule of its own); every reference it does touch
\* must be one the model considers usable
RefMatches(R, r, lg) ==
  \/ lg.st = "skip"
  \/ /\ R.refs[r].st = lg.st
     /\ lg.st = "live" =>
          Proj(Get(R.docs[R.refs[r].d].root, R.refs[r].p)) = lg.v

DocMatches(R, d, lg) ==
  /\ Proj(R.docs[d].root) = lg.root
  /\ R.docs[d].ovf = lg.ovf
  /\ Ser(R.docs[d].root) = lg.ser

Matches(R, ev) ==
  /\ ev.ret = "skip" \/ R.ret = "dontcare" \/ ev.ret = R.ret
  /\ \A d \in DOMAIN R.docs : DocMatches(R, d, ev.obs.docs[d])
  /\ \A r \in DOMAIN R.refs : RefMatches(R, r, ev.obs.refs[r])

Explain(R, ev) ==
  PrintT(<<"REJECT", ToJson([line |-> l, ret |-> R.ret,
                             obs |-> Obs([docs |-> R.docs, refs |-> R.refs])])>>)

TraceInit ==
  /\ l = 1
  /\ docs = <<>>
  /\ refs = <<>>

TraceNext ==
  /\ l <= Len(TraceLog)
  /\ l' = l + 1
  /\ LET ev == TraceLog[l] IN
       IF ev.e = "reset"
       THEN /\ docs' = Fresh(ev.nd, ev.nr).docs
            /\ refs' = Fresh(ev.nd, ev.nr).refs
       ELSE /\ IF Legal(St, ev.op) THEN TRUE
               ELSE PrintT(<<"REJECT", ToJson([line |-> l, ret |-> "operation outside the quantifier (harness error)"])>>) /\ FALSE
            /\ LET R == Step(St, ev.op) IN
                 /\ IF Matches(R, ev) THEN TRUE ELSE Explain(R, ev) /\ FALSE
                 /\ docs' = R.docs
                 /\ refs' = R.refs

TraceSpec == TraceInit /\ [][TraceNext]_tvars

\* model-level invariants evaluated at every step of the recorded execution
TraceInv ==
  /\ docs # <<>> => RefsDesignate(St)
  /\ \A d \in DOMAIN docs : UniqueKeys(docs[d].root)

Accepted ==
  /\ PrintT(<<"TRACE-DEPTH", TLCGet("stats").diameter - 1, Len(TraceLog)>>)
  /\ TLCGet("stats").diameter - 1 = Len(TraceLog)
=============================================================================
