----------------------------- MODULE JsonReader -----------------------------
(***************************************************************************)
(* Executable description of the language deserializeJson accepts and of   *)
(* the value it assigns: the documented dialect (RFC 8259 plus single      *)
(* quotes, unquoted identifier keys, lenient numbers, comments / NaN /     *)
(* Infinity when enabled, arbitrary bytes after a complete top-level       *)
(* value), the six result codes, filtering, the nesting limit and the      *)
(* number of bytes taken from the input.                                   *)
(*                                                                         *)
(* It is shaped like JsonDeserializer.hpp: one operator per member         *)
(* function (parseVariant, parseArray, parseObject, parseQuotedString,     *)
(* parseNumericValue, skip*, skipSpacesAndComments), a one-character       *)
(* look-ahead position p, parse mode and skip mode.                        *)
(*                                                                         *)
(* Inputs are sequences of byte values (0..255).  A byte 0, or the end of  *)
(* the sequence, is the end of the input.  Values are byte-level nodes     *)
(*   [t, b, c]: t = "n" null, "T" true, "F" false, "#" number (b = the     *)
(*   literal as written: its numeric value is Numbers.tla's business),     *)
(*   "s" string (b = bytes after unescaping), "a" array (c = elements),    *)
(*   "o" object (c = members), "m" member (b = key bytes, c = <<value>>),  *)
(*   "x" unbound.                                                          *)
(* A result is [code, v, p, ld, d]: p is the position of the look-ahead    *)
(* character, ld whether it has been fetched from the input, d the         *)
(* deepest recursion level entered.                                        *)
(***************************************************************************)
EXTENDS Integers, Sequences, FiniteSets, TLC

N(t, b, c) == [t |-> t, b |-> b, c |-> c]
NullV == N("n", <<>>, <<>>)
TrueV == N("T", <<>>, <<>>)
FalseV == N("F", <<>>, <<>>)
UnboundV == N("x", <<>>, <<>>)
NumV(lit) == N("#", lit, <<>>)
StrB(bytes) == N("s", bytes, <<>>)
ArrB(es) == N("a", <<>>, es)
ObjB(ms) == N("o", <<>>, ms)
MemB(k, v) == N("m", k, <<v>>)

Res(code, v, p, ld, d) == [code |-> code, v |-> v, p |-> p, ld |-> ld, d |-> d]

Cur(inp, p) == IF p > Len(inp) THEN 0 ELSE inp[p]

IsWs(c) == c \in {32, 9, 13, 10}
IsDigit(c) == c >= 48 /\ c <= 57
IsQuote(c) == c \in {34, 39}
\* strict mode = RFC 8259 only (used as the "independent parser" of the serializer's output):
\* double quotes, quoted keys, RFC number grammar, RFC escapes
Strict(o) == "strict" \in DOMAIN o /\ o.strict
\* longest string (decoded bytes) a document of this build can hold (ARDUINOJSON_STRING_LENGTH_SIZE); a longer
\* string or key that is to be STORED gives NoMemory once it has been read to its end (the string buffer
\* grows 31, 63, 127, ... and the step beyond the maximum is refused); skipped strings have no limit
MaxStr(o) == IF "maxstr" \in DOMAIN o THEN o.maxstr ELSE 2000000000
TooLong(b, o) == Len(b) > MaxStr(o)
IsQuoteO(c, o) == IF Strict(o) THEN c = 34 ELSE IsQuote(c)
IsAlpha(c) == (c >= 65 /\ c <= 90) \/ (c >= 97 /\ c <= 122)
CanBeInNumber(c, o) ==
  IsDigit(c) \/ c \in {43, 45, 46} \/ (IF o.nan \/ o.inf THEN IsAlpha(c) ELSE c \in {101, 69})
CanBeInNonQuoted(c) == IsDigit(c) \/ (c >= 95 /\ c <= 122) \/ (c >= 65 /\ c <= 90)
Max2(a, b) == IF a > b THEN a ELSE b
Mod(a, b) == a - (a \div b) * b

(***************************************************************************)
(* skipSpacesAndComments: [code, p]; the character at p has been looked at *)
(***************************************************************************)
RECURSIVE InBlockComment(_, _, _)   \* after "/*": returns position after the closing "*/" or 0 when unterminated
InBlockComment(inp, p, wasStar) ==
  LET c == Cur(inp, p) IN
  IF c = 0 THEN 0
  ELSE IF c = 47 /\ wasStar THEN p + 1
  ELSE InBlockComment(inp, p + 1, c = 42)

RECURSIVE InLineComment(_, _)       \* p is at the second "/": returns position of the "\n" or 0
InLineComment(inp, p) ==
  LET c == Cur(inp, p + 1) IN
  IF c = 0 THEN 0 ELSE IF c = 10 THEN p + 1 ELSE InLineComment(inp, p + 1)

RECURSIVE SkipWs(_, _, _, _)
SkipWs(inp, p, o, found) ==
  LET c == Cur(inp, p) IN
  IF c = 0 THEN [code |-> IF found THEN "IncompleteInput" ELSE "EmptyInput", p |-> p]
  ELSE IF IsWs(c) THEN SkipWs(inp, p + 1, o, found)
  ELSE IF c = 47 /\ o.comments THEN
    LET c2 == Cur(inp, p + 1) IN
    IF c2 = 42 THEN
      LET q == InBlockComment(inp, p + 2, FALSE) IN
      IF q = 0 THEN [code |-> "IncompleteInput", p |-> Len(inp) + 1] ELSE SkipWs(inp, q, o, found)
    ELSE IF c2 = 47 THEN
      LET q == InLineComment(inp, p + 1) IN
      IF q = 0 THEN [code |-> "IncompleteInput", p |-> Len(inp) + 1] ELSE SkipWs(inp, q, o, found)
    ELSE [code |-> "InvalidInput", p |-> p + 1]
  ELSE [code |-> "Ok", p |-> p]

(***************************************************************************)
(* keywords: no look-ahead after the last letter                           *)
(***************************************************************************)
RECURSIVE Keyword(_, _, _)          \* [code, p]
Keyword(inp, p, word) ==
  IF word = <<>> THEN [code |-> "Ok", p |-> p]
  ELSE LET c == Cur(inp, p) IN
       IF c = 0 THEN [code |-> "IncompleteInput", p |-> p]
       ELSE IF c # Head(word) THEN [code |-> "InvalidInput", p |-> p]
       ELSE Keyword(inp, p + 1, Tail(word))

WTrue == <<116, 114, 117, 101>>
WFalse == <<102, 97, 108, 115, 101>>
WNull == <<110, 117, 108, 108>>

(***************************************************************************)
(* strings                                                                 *)
(***************************************************************************)
HexVal(c) ==
  IF c >= 48 /\ c <= 57 THEN c - 48
  ELSE IF c >= 65 /\ c <= 70 THEN c - 55
  ELSE IF c >= 97 /\ c <= 102 THEN c - 87
  ELSE -1

Utf8(cp) ==
  IF cp < 128 THEN <<cp>>
  ELSE IF cp < 2048 THEN <<192 + cp \div 64, 128 + Mod(cp, 64)>>
  ELSE IF cp < 65536 THEN <<224 + cp \div 4096, 128 + Mod(cp \div 64, 64), 128 + Mod(cp, 64)>>
  ELSE <<240 + cp \div 262144, 128 + Mod(cp \div 4096, 64), 128 + Mod(cp \div 64, 64), 128 + Mod(cp, 64)>>

Unescape(c) ==
  CASE c = 47 -> 47 [] c = 39 -> 39 [] c = 34 -> 34 [] c = 92 -> 92
    [] c = 98 -> 8 [] c = 102 -> 12 [] c = 110 -> 10 [] c = 114 -> 13 [] c = 116 -> 9
    [] OTHER -> 0

\* after the opening quote: [code, b, p]; hi = pending high surrogate (10 bits) for \u pairs
RECURSIVE QuotedBody(_, _, _, _, _, _)
QuotedBody(inp, p, stop, o, acc, hi) ==
  LET c == Cur(inp, p) IN
  IF c = stop THEN [code |-> IF TooLong(acc, o) THEN "NoMemory" ELSE "Ok", b |-> acc, p |-> p + 1]
  ELSE IF c = 0 THEN [code |-> "IncompleteInput", b |-> acc, p |-> p + 1]
  ELSE IF c = 92 THEN
    LET e == Cur(inp, p + 1) IN
    IF e = 0 THEN [code |-> "IncompleteInput", b |-> acc, p |-> p + 1]
    ELSE IF e = 117 THEN
      IF ~o.unicode THEN QuotedBody(inp, p + 1, stop, o, Append(acc, 92), hi)
      ELSE
        LET h == [k \in 1..4 |-> Cur(inp, p + 1 + k)]
            short == \E k \in 1..4 : h[k] = 0 /\ \A j \in 1..(k - 1) : HexVal(h[j]) >= 0
            bad == \E k \in 1..4 : HexVal(h[k]) < 0 /\ h[k] # 0 /\ \A j \in 1..(k - 1) : HexVal(h[j]) >= 0
        IN IF short THEN [code |-> "IncompleteInput", b |-> acc, p |-> p + 2]
           ELSE IF bad THEN [code |-> "InvalidInput", b |-> acc, p |-> p + 2]
           ELSE LET u == HexVal(h[1]) * 4096 + HexVal(h[2]) * 256 + HexVal(h[3]) * 16 + HexVal(h[4]) IN
                IF u >= 55296 /\ u < 56320 THEN QuotedBody(inp, p + 6, stop, o, acc, Mod(u, 1024))
                ELSE IF u >= 56320 /\ u < 57344
                     THEN QuotedBody(inp, p + 6, stop, o, acc \o Utf8(65536 + hi * 1024 + Mod(u, 1024)), hi)
                     ELSE QuotedBody(inp, p + 6, stop, o, acc \o Utf8(u), hi)
    ELSE IF Unescape(e) = 0 \/ (Strict(o) /\ e = 39) THEN [code |-> "InvalidInput", b |-> acc, p |-> p + 1]
    ELSE QuotedBody(inp, p + 2, stop, o, Append(acc, Unescape(e)), hi)
  ELSE QuotedBody(inp, p + 1, stop, o, Append(acc, c), hi)

RECURSIVE SkipQuotedBody(_, _, _)    \* skip mode ignores what follows a backslash
SkipQuotedBody(inp, p, stop) ==
  LET c == Cur(inp, p) IN
  IF c = stop THEN [code |-> "Ok", p |-> p + 1]
  ELSE IF c = 0 THEN [code |-> "IncompleteInput", p |-> p + 1]
  ELSE IF c = 92 THEN SkipQuotedBody(inp, IF Cur(inp, p + 1) # 0 THEN p + 2 ELSE p + 1, stop)
  ELSE SkipQuotedBody(inp, p + 1, stop)

RECURSIVE NonQuotedRun(_, _, _)
NonQuotedRun(inp, p, acc) ==
  IF CanBeInNonQuoted(Cur(inp, p)) THEN NonQuotedRun(inp, p + 1, Append(acc, Cur(inp, p)))
  ELSE [b |-> acc, p |-> p]

\* key of a member: [code, b, p, ld]
ParseKey(inp, p, o) ==
  IF IsQuoteO(Cur(inp, p), o)
  THEN LET r == QuotedBody(inp, p + 1, Cur(inp, p), o, <<>>, 0) IN [code |-> r.code, b |-> r.b, p |-> r.p, ld |-> FALSE]
  ELSE LET r == NonQuotedRun(inp, p, <<>>) IN
       IF r.b = <<>> \/ Strict(o) THEN [code |-> "InvalidInput", b |-> <<>>, p |-> p, ld |-> TRUE]
       ELSE [code |-> IF TooLong(r.b, o) THEN "NoMemory" ELSE "Ok", b |-> r.b, p |-> r.p, ld |-> TRUE]

SkipKey(inp, p) ==
  IF IsQuote(Cur(inp, p))
  THEN LET r == SkipQuotedBody(inp, p + 1, Cur(inp, p)) IN [code |-> r.code, p |-> r.p, ld |-> FALSE]
  ELSE [code |-> "Ok", p |-> NonQuotedRun(inp, p, <<>>).p, ld |-> TRUE]

(***************************************************************************)
(* numbers: the run of number characters (at most 63) and its grammar      *)
(*   sign? ( digits+ [ '.' digits ] | '.' digits ) [ e sign? digits ]      *)
(*   (every 'digits' after the first may be empty)                         *)
(* NaN / Infinity (when enabled): after the sign, n/N or i/I, then anything*)
(***************************************************************************)
RECURSIVE NumberRun(_, _, _, _)
NumberRun(inp, p, o, acc) ==
  IF CanBeInNumber(Cur(inp, p), o) /\ Len(acc) < 63
  THEN NumberRun(inp, p + 1, o, Append(acc, Cur(inp, p)))
  ELSE [b |-> acc, p |-> p]

RECURSIVE DigitsEnd(_, _)            \* first index >= i that is not a digit
DigitsEnd(s, i) == IF i <= Len(s) /\ IsDigit(s[i]) THEN DigitsEnd(s, i + 1) ELSE i

\* RFC 8259: -? (0 | [1-9] digit*) ('.' digit+)? ([eE] [+-]? digit+)?
StrictNumber(s) ==
  LET i0 == IF Len(s) >= 1 /\ s[1] = 45 THEN 2 ELSE 1
      i1 == DigitsEnd(s, i0)
      intOk == i1 > i0 /\ (s[i0] # 48 \/ i1 = i0 + 1)
      i2 == IF i1 <= Len(s) /\ s[i1] = 46 THEN DigitsEnd(s, i1 + 1) ELSE i1
      fracOk == i2 = i1 \/ i2 > i1 + 1
      i3 == IF i2 <= Len(s) /\ s[i2] \in {101, 69}
            THEN LET j == IF i2 + 1 <= Len(s) /\ s[i2 + 1] \in {43, 45} THEN i2 + 2 ELSE i2 + 1 IN DigitsEnd(s, j)
            ELSE i2
      expOk == i3 = i2 \/ (LET j == IF i2 + 1 <= Len(s) /\ s[i2 + 1] \in {43, 45} THEN i2 + 2 ELSE i2 + 1 IN i3 > j)
  IN intOk /\ fracOk /\ expOk /\ i3 = Len(s) + 1

ValidNumber(s, o) ==
  IF Strict(o) THEN StrictNumber(s) ELSE
  LET i0 == IF Len(s) >= 1 /\ s[1] \in {43, 45} THEN 2 ELSE 1
      c0 == IF i0 <= Len(s) THEN s[i0] ELSE 0
  IN IF o.nan /\ c0 \in {110, 78} THEN TRUE
     ELSE IF o.inf /\ c0 \in {105, 73} THEN TRUE
     ELSE IF ~(IsDigit(c0) \/ c0 = 46) THEN FALSE
     ELSE LET i1 == DigitsEnd(s, i0)
              i2 == IF i1 <= Len(s) /\ s[i1] = 46 THEN DigitsEnd(s, i1 + 1) ELSE i1
              i3 == IF i2 <= Len(s) /\ s[i2] \in {101, 69}
                    THEN LET j == IF i2 + 1 <= Len(s) /\ s[i2 + 1] \in {43, 45} THEN i2 + 2 ELSE i2 + 1
                         IN DigitsEnd(s, j)
                    ELSE i2
          IN i3 = Len(s) + 1

\* literals whose value the property does not pin down (no mantissa digit, or an exponent marker without digits)
RECURSIVE HasDigit(_)
HasDigit(s) == s # <<>> /\ (IsDigit(Head(s)) \/ HasDigit(Tail(s)))
WeirdNumber(s) ==
  \/ ~HasDigit(s)
  \/ \E i \in 1..Len(s) : s[i] \in {101, 69} /\ ~HasDigit(SubSeq(s, i + 1, Len(s)))
  \/ \E i \in 1..Len(s) : s[i] \in {101, 69} /\ ~HasDigit(SubSeq(s, 1, i - 1))

(***************************************************************************)
(* filters                                                                 *)
(***************************************************************************)
IsTrueF(f) == f.t = "T"
AllowF(f) == f.t \notin {"n", "F", "x"}        \* numeric filter leaves are outside the spec (don't-care zone)
AllowArray(f) == IsTrueF(f) \/ f.t = "a"
AllowObject(f) == IsTrueF(f) \/ f.t = "o"
AllowValue(f) == IsTrueF(f)

MemberIndex(ms, key) ==
  LET hits == {j \in 1..Len(ms) : ms[j].b = key}
  IN IF hits = {} THEN 0 ELSE CHOOSE j \in hits : \A j2 \in hits : j <= j2

LookupKey(f, key) ==
  IF f.t = "o" /\ MemberIndex(f.c, key) > 0 THEN f.c[MemberIndex(f.c, key)].c[1] ELSE UnboundV

Star == <<42>>
SubKey(f, key) ==
  IF IsTrueF(f) THEN f
  ELSE LET m == LookupKey(f, key) IN IF m.t \in {"n", "x"} THEN LookupKey(f, Star) ELSE m
SubIdx(f) ==
  IF IsTrueF(f) THEN f
  ELSE LET m == IF f.t = "a" /\ Len(f.c) > 0 THEN f.c[1] ELSE UnboundV
       IN IF m.t \in {"n", "x"} THEN LookupKey(f, Star) ELSE m

(***************************************************************************)
(* skip mode                                                               *)
(***************************************************************************)
RECURSIVE SkipVariant(_, _, _, _, _)
RECURSIVE SkipArrayLoop(_, _, _, _, _)
RECURSIVE SkipObjectLoop(_, _, _, _, _)

SkipVariant(inp, p0, o, lim, lvl) ==
  LET w == SkipWs(inp, p0, o, TRUE) IN
  IF w.code # "Ok" THEN Res(w.code, NullV, w.p, TRUE, lvl)
  ELSE LET p == w.p
           c == Cur(inp, p) IN
    IF c = 91 THEN
      IF lim = 0 THEN Res("TooDeep", NullV, p, TRUE, lvl)
      ELSE SkipArrayLoop(inp, p + 1, o, lim - 1, lvl + 1)      \* skipArray does not special-case "[]"
    ELSE IF c = 123 THEN
      IF lim = 0 THEN Res("TooDeep", NullV, p, TRUE, lvl)
      ELSE LET w2 == SkipWs(inp, p + 1, o, TRUE) IN
           IF w2.code # "Ok" THEN Res(w2.code, NullV, w2.p, TRUE, lvl + 1)
           ELSE IF Cur(inp, w2.p) = 125 THEN Res("Ok", NullV, w2.p + 1, FALSE, lvl + 1)
           ELSE SkipObjectLoop(inp, w2.p, o, lim - 1, lvl + 1)
    ELSE IF IsQuote(c) THEN
      LET r == SkipQuotedBody(inp, p + 1, c) IN Res(r.code, NullV, r.p, FALSE, lvl)
    ELSE IF c = 116 THEN LET r == Keyword(inp, p, WTrue) IN Res(r.code, NullV, r.p, r.code # "Ok", lvl)
    ELSE IF c = 102 THEN LET r == Keyword(inp, p, WFalse) IN Res(r.code, NullV, r.p, r.code # "Ok", lvl)
    ELSE IF c = 110 THEN LET r == Keyword(inp, p, WNull) IN Res(r.code, NullV, r.p, r.code # "Ok", lvl)
    ELSE \* skipNumericValue: any run of number characters, even empty, no length limit, no validation
      LET RECURSIVE Run(_)
          Run(q) == IF CanBeInNumber(Cur(inp, q), o) THEN Run(q + 1) ELSE q
      IN Res("Ok", NullV, Run(p), TRUE, lvl)

\* one element, then "]" or ","
SkipArrayLoop(inp, p, o, lim, lvl) ==
  LET e == SkipVariant(inp, p, o, lim, lvl) IN
  IF e.code # "Ok" THEN e
  ELSE LET w == SkipWs(inp, e.p, o, TRUE) IN
       IF w.code # "Ok" THEN Res(w.code, NullV, w.p, TRUE, e.d)
       ELSE IF Cur(inp, w.p) = 93 THEN Res("Ok", NullV, w.p + 1, FALSE, e.d)
       ELSE IF Cur(inp, w.p) = 44 THEN
            LET r == SkipArrayLoop(inp, w.p + 1, o, lim, lvl) IN [r EXCEPT !.d = Max2(r.d, e.d)]
       ELSE Res("InvalidInput", NullV, w.p, TRUE, e.d)

\* p is at the first character of a key
SkipObjectLoop(inp, p, o, lim, lvl) ==
  LET k == SkipKey(inp, p) IN
  IF k.code # "Ok" THEN Res(k.code, NullV, k.p, k.ld, lvl)
  ELSE LET w == SkipWs(inp, k.p, o, TRUE) IN
    IF w.code # "Ok" THEN Res(w.code, NullV, w.p, TRUE, lvl)
    ELSE IF Cur(inp, w.p) # 58 THEN Res("InvalidInput", NullV, w.p, TRUE, lvl)
    ELSE LET e == SkipVariant(inp, w.p + 1, o, lim, lvl) IN
      IF e.code # "Ok" THEN e
      ELSE LET w2 == SkipWs(inp, e.p, o, TRUE) IN
        IF w2.code # "Ok" THEN Res(w2.code, NullV, w2.p, TRUE, e.d)
        ELSE IF Cur(inp, w2.p) = 125 THEN Res("Ok", NullV, w2.p + 1, FALSE, e.d)
        ELSE IF Cur(inp, w2.p) # 44 THEN Res("InvalidInput", NullV, w2.p, TRUE, e.d)
        ELSE LET w3 == SkipWs(inp, w2.p + 1, o, TRUE) IN
          IF w3.code # "Ok" THEN Res(w3.code, NullV, w3.p, TRUE, e.d)
          ELSE LET r == SkipObjectLoop(inp, w3.p, o, lim, lvl) IN [r EXCEPT !.d = Max2(r.d, e.d)]

(***************************************************************************)
(* parse mode                                                              *)
(***************************************************************************)
RECURSIVE ParseVariant(_, _, _, _, _, _, _)
RECURSIVE ParseArrayLoop(_, _, _, _, _, _, _)
RECURSIVE ParseObjectLoop(_, _, _, _, _, _, _)

\* found = FALSE only for the very first call (EmptyInput vs IncompleteInput)
ParseVariant(inp, p0, o, lim, f, lvl, found) ==
  LET w == SkipWs(inp, p0, o, found) IN
  IF w.code # "Ok" THEN Res(w.code, NullV, w.p, TRUE, lvl)
  ELSE LET p == w.p
           c == Cur(inp, p) IN
    IF c = 91 THEN
      IF ~AllowArray(f) THEN SkipVariant(inp, p, o, lim, lvl)
      ELSE IF lim = 0 THEN Res("TooDeep", ArrB(<<>>), p, TRUE, lvl)
      ELSE LET w2 == SkipWs(inp, p + 1, o, TRUE) IN
           IF w2.code # "Ok" THEN Res(w2.code, ArrB(<<>>), w2.p, TRUE, lvl + 1)
           ELSE IF Cur(inp, w2.p) = 93 THEN Res("Ok", ArrB(<<>>), w2.p + 1, FALSE, lvl + 1)
           ELSE ParseArrayLoop(inp, w2.p, o, lim - 1, SubIdx(f), lvl + 1, <<>>)
    ELSE IF c = 123 THEN
      IF ~AllowObject(f) THEN SkipVariant(inp, p, o, lim, lvl)
      ELSE IF lim = 0 THEN Res("TooDeep", ObjB(<<>>), p, TRUE, lvl)
      ELSE LET w2 == SkipWs(inp, p + 1, o, TRUE) IN
           IF w2.code # "Ok" THEN Res(w2.code, ObjB(<<>>), w2.p, TRUE, lvl + 1)
           ELSE IF Cur(inp, w2.p) = 125 THEN Res("Ok", ObjB(<<>>), w2.p + 1, FALSE, lvl + 1)
           ELSE ParseObjectLoop(inp, w2.p, o, lim - 1, f, lvl + 1, <<>>)
    ELSE IF IsQuoteO(c, o) THEN
      IF ~AllowValue(f) THEN SkipVariant(inp, p, o, lim, lvl)
      ELSE LET r == QuotedBody(inp, p + 1, c, o, <<>>, 0) IN
           Res(r.code, IF r.code = "Ok" THEN StrB(r.b) ELSE NullV, r.p, FALSE, lvl)
    ELSE IF c = 116 THEN
      LET r == Keyword(inp, p, WTrue) IN Res(r.code, IF AllowValue(f) THEN TrueV ELSE NullV, r.p, r.code # "Ok", lvl)
    ELSE IF c = 102 THEN
      LET r == Keyword(inp, p, WFalse) IN Res(r.code, IF AllowValue(f) THEN FalseV ELSE NullV, r.p, r.code # "Ok", lvl)
    ELSE IF c = 110 THEN
      LET r == Keyword(inp, p, WNull) IN Res(r.code, NullV, r.p, r.code # "Ok", lvl)
    ELSE IF ~AllowValue(f) THEN SkipVariant(inp, p, o, lim, lvl)
    ELSE LET r == NumberRun(inp, p, o, <<>>) IN
         IF ValidNumber(r.b, o) THEN Res("Ok", NumV(r.b), r.p, TRUE, lvl)
         ELSE Res("InvalidInput", NullV, r.p, TRUE, lvl)

\* p is at the first character of an element; acc = elements so far; f = the element filter
ParseArrayLoop(inp, p, o, lim, f, lvl, acc) ==
  LET e == IF AllowF(f) THEN ParseVariant(inp, p, o, lim, f, lvl, TRUE) ELSE SkipVariant(inp, p, o, lim, lvl)
      acc2 == IF AllowF(f) THEN Append(acc, e.v) ELSE acc IN
  IF e.code # "Ok" THEN [e EXCEPT !.v = ArrB(acc2)]
  ELSE LET w == SkipWs(inp, e.p, o, TRUE) IN
       IF w.code # "Ok" THEN Res(w.code, ArrB(acc2), w.p, TRUE, e.d)
       ELSE IF Cur(inp, w.p) = 93 THEN Res("Ok", ArrB(acc2), w.p + 1, FALSE, e.d)
       ELSE IF Cur(inp, w.p) = 44 THEN
            LET r == ParseArrayLoop(inp, w.p + 1, o, lim, f, lvl, acc2) IN [r EXCEPT !.d = Max2(r.d, e.d)]
       ELSE Res("InvalidInput", ArrB(acc2), w.p, TRUE, e.d)

\* p is at the first character of a key; f = the OBJECT's filter; acc = members so far.
\* A repeated key replaces the value of the first occurrence (last one wins, position of the first).
ParseObjectLoop(inp, p, o, lim, f, lvl, acc) ==
  LET k == ParseKey(inp, p, o) IN
  IF k.code # "Ok" THEN Res(k.code, ObjB(acc), k.p, k.ld, lvl)
  ELSE LET w == SkipWs(inp, k.p, o, TRUE) IN
    IF w.code # "Ok" THEN Res(w.code, ObjB(acc), w.p, TRUE, lvl)
    ELSE IF Cur(inp, w.p) # 58 THEN Res("InvalidInput", ObjB(acc), w.p, TRUE, lvl)
    ELSE LET mf == SubKey(f, k.b)
             e == IF AllowF(mf) THEN ParseVariant(inp, w.p + 1, o, lim, mf, lvl, TRUE)
                  ELSE SkipVariant(inp, w.p + 1, o, lim, lvl)
             j == MemberIndex(acc, k.b)
             acc2 == IF ~AllowF(mf) THEN acc
                     ELSE IF j > 0 THEN [acc EXCEPT ![j] = MemB(k.b, e.v)]
                     ELSE Append(acc, MemB(k.b, e.v)) IN
      IF e.code # "Ok" THEN [e EXCEPT !.v = ObjB(acc2)]
      ELSE LET w2 == SkipWs(inp, e.p, o, TRUE) IN
        IF w2.code # "Ok" THEN Res(w2.code, ObjB(acc2), w2.p, TRUE, e.d)
        ELSE IF Cur(inp, w2.p) = 125 THEN Res("Ok", ObjB(acc2), w2.p + 1, FALSE, e.d)
        ELSE IF Cur(inp, w2.p) # 44 THEN Res("InvalidInput", ObjB(acc2), w2.p, TRUE, e.d)
        ELSE LET w3 == SkipWs(inp, w2.p + 1, o, TRUE) IN
          IF w3.code # "Ok" THEN Res(w3.code, ObjB(acc2), w3.p, TRUE, e.d)
          ELSE LET r == ParseObjectLoop(inp, w3.p, o, lim, f, lvl, acc2) IN [r EXCEPT !.d = Max2(r.d, e.d)]

(***************************************************************************)
(* deserializeJson(input, Filter(f), NestingLimit(lim))                    *)
(*   code, value, bytes taken from the input, deepest recursion level      *)
(***************************************************************************)
AllowAll == TrueV

DeserializeJson(inp, o, lim, f) ==
  LET r == ParseVariant(inp, 1, o, lim, f, 0, FALSE)
      \* a top-level number is followed by the end of the input, whitespace or (when enabled) a comment
      trailing == r.code = "Ok" /\ r.v.t = "#"
                  /\ ~(Cur(inp, r.p) = 0 \/ IsWs(Cur(inp, r.p)) \/ (o.comments /\ Cur(inp, r.p) = 47))
      code == IF trailing THEN "InvalidInput" ELSE r.code
      \* bytes fetched: up to the look-ahead character when it was fetched, never beyond the end
      upto == IF r.ld THEN r.p ELSE r.p - 1
      firstNul == LET z == {i \in 1..Len(inp) : inp[i] = 0} IN
                  IF z = {} THEN Len(inp) + 1 ELSE CHOOSE i \in z : \A j \in z : i <= j
      read == IF upto > Len(inp) THEN Len(inp) ELSE upto
  IN [code |-> code, v |-> r.v, read |-> read, depth |-> r.d,
      weird |-> FALSE, nulAt |-> firstNul]

(***************************************************************************)
(* Projection of a value onto a filter (what C11 states declaratively)     *)
(***************************************************************************)
RECURSIVE Project(_, _)
Project(v, f) ==
  IF IsTrueF(f) THEN v
  ELSE IF v.t = "a" THEN
    IF ~AllowArray(f) THEN NullV
    ELSE LET ef == SubIdx(f)
             RECURSIVE Keep(_)
             Keep(es) == IF es = <<>> THEN <<>>
                         ELSE (IF AllowF(ef) THEN <<Project(Head(es), ef)>> ELSE <<>>) \o Keep(Tail(es))
         IN ArrB(Keep(v.c))
  ELSE IF v.t = "o" THEN
    IF ~AllowObject(f) THEN NullV
    ELSE LET RECURSIVE KeepM(_)
             KeepM(ms) == IF ms = <<>> THEN <<>>
                          ELSE LET mf == SubKey(f, Head(ms).b) IN
                               (IF AllowF(mf) THEN <<MemB(Head(ms).b, Project(Head(ms).c[1], mf))>> ELSE <<>>)
                               \o KeepM(Tail(ms))
         IN ObjB(KeepM(v.c))
  ELSE NullV     \* a scalar is kept only by the filter "true"

RECURSIVE NestingB(_)
NestingB(v) ==
  IF v.t \in {"a", "o"} THEN
     1 + (IF v.c = <<>> THEN 0
          ELSE LET ns == {NestingB(IF v.t = "o" THEN v.c[j].c[1] ELSE v.c[j]) : j \in 1..Len(v.c)}
               IN CHOOSE n \in ns : \A n2 \in ns : n >= n2)
  ELSE 0

=============================================================================
