------------------------------- MODULE Compare -------------------------------
(***************************************************************************)
(* C18: one coherent comparison relation that agrees with the values.      *)
(*                                                                         *)
(* A value is an entry of a table T (sequence of descriptors):             *)
(*   kind  "null" | "unbound" | "bool" | "int" | "flt" | "str" | "raw" |   *)
(*         "arr" | "obj"                                                   *)
(*   ex    rank of the exact value among all numbers of the table          *)
(*   dr    rank of the value converted to double                           *)
(*   b     bytes (strings, raw values); c children (indices into T);       *)
(*   keys  member keys (objects)                                           *)
(* Cmp(T, i, j) is "EQ", "LT", "GT" or "NE" (unordered).                   *)
(* Numbers compare by value: two integers exactly (ex), anything else as   *)
(* doubles (dr); strings and raw values are equal only when their bytes    *)
(* are identical; arrays element-wise in order; objects member-wise        *)
(* regardless of order; null / unbound equal only null / unbound.          *)
(***************************************************************************)
EXTENDS Integers, Sequences, FiniteSets, TLC

IsNum(v) == v.kind \in {"int", "flt"}
IsNullish(v) == v.kind \in {"null", "unbound"}

\* lexicographic order of byte strings
RECURSIVE LexLess(_, _)
LexLess(a, b) ==
  IF b = <<>> THEN FALSE
  ELSE IF a = <<>> THEN TRUE
  ELSE IF Head(a) # Head(b) THEN Head(a) < Head(b)
  ELSE LexLess(Tail(a), Tail(b))

RECURSIVE Eq(_, _, _)
Eq(T, i, j) ==
  LET a == T[i] b == T[j] IN
  IF IsNullish(a) \/ IsNullish(b) THEN IsNullish(a) /\ IsNullish(b)
  ELSE IF IsNum(a) /\ IsNum(b) THEN (IF a.kind = "int" /\ b.kind = "int" THEN a.ex = b.ex ELSE a.dr = b.dr)
  ELSE IF a.kind # b.kind THEN FALSE
  ELSE CASE a.kind = "bool" -> a.ex = b.ex
         [] a.kind \in {"str", "raw"} -> a.b = b.b
         [] a.kind = "arr" -> Len(a.c) = Len(b.c) /\ \A k \in 1..Len(a.c) : Eq(T, a.c[k], b.c[k])
         [] a.kind = "obj" -> Len(a.c) = Len(b.c)
                              /\ \A k \in 1..Len(a.c) :
                                   \E m \in 1..Len(b.c) : b.keys[m] = a.keys[k] /\ Eq(T, a.c[k], b.c[m])

\* ordering is defined between numbers (by value) and between strings; everything else is unordered
Cmp(T, i, j) ==
  LET a == T[i] b == T[j] IN
  IF Eq(T, i, j) THEN "EQ"
  ELSE IF IsNum(a) /\ IsNum(b) THEN
       (IF a.kind = "int" /\ b.kind = "int" THEN (IF a.ex < b.ex THEN "LT" ELSE "GT")
        ELSE (IF a.dr < b.dr THEN "LT" ELSE "GT"))
  ELSE IF a.kind = "str" /\ b.kind = "str" THEN (IF LexLess(a.b, b.b) THEN "LT" ELSE "GT")
  ELSE "NE"

\* pairs the property leaves undefined
DontCare(T, i, j) ==
  LET a == T[i] b == T[j] IN
  \/ (a.kind = "bool" /\ IsNum(b)) \/ (b.kind = "bool" /\ IsNum(a))
  \/ (IsNum(a) /\ IsNum(b) /\ (a.dr < 0 \/ b.dr < 0))          \* NaN operands (rank -1)

(***************************************************************************)
(* Model-level coherence of Cmp itself (checked by TLC on the whole table) *)
(***************************************************************************)
Coherent(T) ==
  \A i, j \in 1..Len(T) :
     /\ (Cmp(T, i, j) = "EQ") = (Cmp(T, j, i) = "EQ")
     /\ (Cmp(T, i, j) = "LT") = (Cmp(T, j, i) = "GT")
     /\ (Cmp(T, i, j) = "NE") = (Cmp(T, j, i) = "NE")
     /\ Cmp(T, i, i) = "EQ"

=============================================================================
