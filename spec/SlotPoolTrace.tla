--------------------------- MODULE SlotPoolTrace ---------------------------
(***************************************************************************)
(* Trace validation of the allocator layer AND of its coupling with the    *)
(* abstract document (the refinement link between SlotPool.tla and         *)
(* Document.tla), on executions recorded from the real library.            *)
(*                                                                         *)
(* harness/doc_record.cpp --events logs, in program order:                 *)
(*   {"e":"reset","nd":..,"nr":..,"geo":{cap,init,null,maxp}}              *)
(*   {"e":"h","k":<kind>,"L":<list id>,"a":..,"b":..}   one per hook event *)
(*   {"e":"op","op":..,"ret":..,"obs":..,"snap":[<inspector snapshot per   *)
(*        document>]}                              at each public call's   *)
(*        return                                                           *)
(* Hook events step the pool state of list L exactly like the actions of   *)
(* SlotPool.tla (same guards: a slot is taken from the last pool or a pool *)
(* is added only when the free list is empty, an id handed out is not in   *)
(* use and is below NULL_SLOT, the pool count stays within maxPools, a     *)
(* released id was in use, string reference counts move by one and a node  *)
(* disappears exactly at zero).  Each "op" event must be explained by      *)
(* Document!Step, and the inspector snapshot must agree with BOTH models:  *)
(* pool usages and free list with the pool state, reachable slots with     *)
(* SlotsIn(abstract tree), string nodes pairwise distinct with             *)
(* refs = users >= 1.                                                      *)
(***************************************************************************)
EXTENDS Document, Json, IOUtils

VARIABLES docs, refs, lists, strs, geo, l,
          ledger,   \* set of <<allocator, block>>: blocks currently live
          owner,    \* document -> allocator instance it allocates from (0 = the default allocator)
          inOp      \* TRUE between the "begin" of a public call and its return

mvars == <<docs, refs, lists, strs, geo, l, ledger, owner, inOp>>
St == [docs |-> docs, refs |-> refs]

TraceLog == ndJsonDeserialize(IOEnv.TRACE)

SeqToSet(s) == {s[i] : i \in 1..Len(s)}
RECURSIVE SumUsage(_)
SumUsage(ps) == IF ps = <<>> THEN 0 ELSE Head(ps).usage + SumUsage(Tail(ps))
RECURSIVE SumCap(_)
SumCap(ps) == IF ps = <<>> THEN 0 ELSE Head(ps).cap + SumCap(Tail(ps))

FreshList == [pools |-> <<>>, tableCap |-> geo.init, free |-> {}, used |-> {}]
ListOf(L) == IF L \in DOMAIN lists THEN lists[L] ELSE FreshList
SetList(L, v) == [x \in DOMAIN lists \cup {L} |-> IF x = L THEN v ELSE lists[x]]
StrOf(L) == IF L \in DOMAIN strs THEN strs[L] ELSE {}     \* set of <<node id, refs>> pairs
SetStr(L, v) == [x \in DOMAIN strs \cup {L} |-> IF x = L THEN v ELSE strs[x]]

Reject(what, ev) == PrintT(<<"REJECT", ToJson([line |-> l, why |-> what])>>) /\ FALSE
Require(cond, what, ev) == IF cond THEN TRUE ELSE Reject(what, ev)

Bounded == geo.null >= 0      \* slot ids of 1 or 2 bytes: NULL_SLOT fits a TLC integer
LastHasRoom(s) == Len(s.pools) > 0 /\ s.pools[Len(s.pools)].usage < s.pools[Len(s.pools)].cap

(***************************************************************************)
(* hook events                                                             *)
(***************************************************************************)
Hook(ev) ==
  LET s == ListOf(ev.L)
      n == Len(s.pools) IN
  CASE ev.k = 1 ->   \* slot taken from the free list
         /\ Require(ev.a \in s.free, "slot taken from the free list was not on it", ev)
         /\ lists' = SetList(ev.L, [s EXCEPT !.free = @ \ {ev.a}, !.used = @ \cup {ev.a}])
         /\ UNCHANGED strs
    [] ev.k = 2 ->   \* slot taken from the last pool
         /\ Require(s.free = {}, "slot taken from a pool while the free list is not empty (no reuse)", ev)
         /\ Require(ev.a \notin s.used, "slot id handed out twice (wrap-around or aliasing)", ev)
         /\ Require(~Bounded \/ ev.a < geo.null, "slot id reaches NULL_SLOT", ev)
         /\ Require(LastHasRoom(s), "slot taken from a pool that is full", ev)
         /\ Require(ev.a = (n - 1) * geo.cap + s.pools[n].usage, "slot id is not poolIndex*capacity+index", ev)
         /\ lists' = SetList(ev.L, [s EXCEPT !.used = @ \cup {ev.a}, !.pools[n].usage = @ + 1])
         /\ UNCHANGED strs
    [] ev.k = 3 ->   \* pool added: a = count after, b = capacity
         /\ Require(s.free = {}, "pool added while the free list is not empty (no reuse)", ev)
         /\ Require(~LastHasRoom(s), "pool added while the last pool has room", ev)
         /\ Require(ev.a = n + 1, "pool count out of step", ev)
         /\ Require(n + 1 <= s.tableCap, "pool added beyond the table capacity", ev)
         /\ Require(~Bounded \/ ev.a <= geo.maxp, "more pools than maxPools", ev)
         /\ Require(ev.b >= 1 /\ ev.b <= geo.cap, "pool capacity out of range", ev)
         /\ Require(~Bounded \/ n * geo.cap + ev.b <= geo.null, "pools offer more slots than there are slot ids", ev)
         /\ lists' = SetList(ev.L, [s EXCEPT !.pools = Append(@, [cap |-> ev.b, usage |-> 0])])
         /\ UNCHANGED strs
    [] ev.k = 4 ->   \* table grown: a = new capacity
         /\ Require(n = s.tableCap, "pool table grown while not full", ev)
         /\ Require(ev.a > s.tableCap, "pool table did not grow", ev)
         /\ Require(~Bounded \/ ev.a <= geo.maxp, "pool table larger than maxPools", ev)
         /\ lists' = SetList(ev.L, [s EXCEPT !.tableCap = ev.a])
         /\ UNCHANGED strs
    [] ev.k = 5 ->   \* slot released
         /\ Require(ev.a \in s.used, "released slot was not in use (double free)", ev)
         /\ lists' = SetList(ev.L, [s EXCEPT !.used = @ \ {ev.a}, !.free = @ \cup {ev.a}])
         /\ UNCHANGED strs
    [] ev.k = 6 ->
         /\ lists' = SetList(ev.L, FreshList)
         /\ UNCHANGED strs
    [] ev.k = 7 ->   \* shrinkToFit: a = count, b = table capacity after
         /\ Require(ev.a = n, "pool count changed by shrinkToFit", ev)
         /\ Require(ev.b >= n, "table shrunk below the pool count", ev)
         /\ lists' = SetList(ev.L, [s EXCEPT !.tableCap = ev.b,
                                    !.pools = IF n > 0 /\ s.pools[n].usage > 0
                                              THEN [s.pools EXCEPT ![n].cap = s.pools[n].usage] ELSE s.pools])
         /\ UNCHANGED strs
    [] ev.k = 8 ->   \* swap of two lists: L, a
         /\ lists' = [x \in DOMAIN lists \cup {ev.L, ev.a} |->
                        IF x = ev.L THEN ListOf(ev.a) ELSE IF x = ev.a THEN ListOf(ev.L) ELSE lists[x]]
         /\ UNCHANGED strs
    [] ev.k = 9 ->   \* move: L <- a
         /\ lists' = [x \in DOMAIN lists \cup {ev.L, ev.a} |->
                        IF x = ev.L THEN ListOf(ev.a) ELSE IF x = ev.a THEN FreshList ELSE lists[x]]
         /\ UNCHANGED strs
    [] ev.k = 10 ->  \* string node added: a = node
         /\ Require(\A p \in StrOf(ev.L) : p[1] # ev.a, "string node added twice", ev)
         /\ strs' = SetStr(ev.L, StrOf(ev.L) \cup {<<ev.a, 1>>})
         /\ UNCHANGED lists
    [] ev.k \in {11, 13} ->  \* one more user: a = node, b = references after
         /\ Require(\E p \in StrOf(ev.L) : p[1] = ev.a /\ p[2] + 1 = ev.b,
                    "string hit on an unknown node or reference count not incremented by one", ev)
         /\ strs' = SetStr(ev.L, {p \in StrOf(ev.L) : p[1] # ev.a} \cup {<<ev.a, ev.b>>})
         /\ UNCHANGED lists
    [] ev.k = 12 ->  \* one user less: a = node, b = references after
         /\ Require(\E p \in StrOf(ev.L) : p[1] = ev.a /\ p[2] - 1 = ev.b,
                    "dereference of an unknown node or reference count not decremented by one", ev)
         /\ strs' = SetStr(ev.L, {p \in StrOf(ev.L) : p[1] # ev.a} \cup (IF ev.b = 0 THEN {} ELSE {<<ev.a, ev.b>>}))
         /\ UNCHANGED lists
    [] ev.k = 14 ->
         /\ strs' = SetStr(ev.L, {})
         /\ UNCHANGED lists
    [] ev.k = 15 ->
         /\ strs' = [x \in DOMAIN strs \cup {ev.L, ev.a} |->
                       IF x = ev.L THEN StrOf(ev.a) ELSE IF x = ev.a THEN StrOf(ev.L) ELSE strs[x]]
         /\ UNCHANGED lists

(***************************************************************************)
(* allocator events: {"e":"m","k":"A"|"F"|"R","al":..,"b":..,"b2":..}       *)
(* Every block comes from an allocator and goes back to the same one,      *)
(* exactly once; the allocator is only called inside a public call (so     *)
(* never during the read-only observation between two calls).              *)
(***************************************************************************)
MemEvent(ev) ==
  /\ Require(inOp, "allocator called outside a mutating public call (read-only operations must not allocate)", ev)
  /\ CASE ev.k = "A" ->
            /\ Require(~ev.ok \/ <<ev.al, ev.b>> \notin ledger, "block allocated twice", ev)
            /\ ledger' = IF ev.ok THEN ledger \cup {<<ev.al, ev.b>>} ELSE ledger
       [] ev.k = "F" ->
            /\ Require(ev.b = 0 \/ <<ev.al, ev.b>> \in ledger,
                       "block released twice, never allocated, or released through another allocator", ev)
            /\ ledger' = ledger \ {<<ev.al, ev.b>>}
       [] ev.k = "R" ->
            /\ Require(ev.b = 0 \/ <<ev.al, ev.b>> \in ledger,
                       "reallocation of a block this allocator does not own", ev)
            /\ ledger' = IF ev.ok THEN (ledger \ {<<ev.al, ev.b>>}) \cup {<<ev.al, ev.b2>>} ELSE ledger

\* which allocator a document uses after the operation (copy-and-swap assignment takes the
\* source's allocator, a moved-from document falls back to the default allocator)
OwnerAfter(o) ==
  CASE o.op = "assign" -> [owner EXCEPT ![o.ti] = owner[o.si]]
    [] o.op = "move"   -> IF o.ti = o.si THEN owner
                          ELSE [owner EXCEPT ![o.ti] = owner[o.si], ![o.si] = 0]
    [] o.op = "swap"   -> [owner EXCEPT ![o.ti] = owner[o.si], ![o.si] = owner[o.ti]]
    [] OTHER -> owner

\* blocks a document holds: one per pool, the pool table once it left the inline storage, one per string
BlocksOf(sn) == Len(sn.usage) + (IF sn.inline THEN 0 ELSE 1) + Len(sn.strings)
RECURSIVE SumBlocks(_, _, _)
SumBlocks(ds, own, a) ==
  IF ds = <<>> THEN 0
  ELSE (IF own[Len(ds)] = a THEN BlocksOf(ds[Len(ds)]) ELSE 0) + SumBlocks(SubSeq(ds, 1, Len(ds) - 1), own, a)

LedgerOK(ev, own) ==
  \A a \in {own[d] : d \in DOMAIN own} \ {0} :
     Require(Cardinality({p \in ledger : p[1] = a}) = SumBlocks(ev.snap, own, a),
             "live blocks of an allocator differ from what its documents hold (leak, or memory taken from another allocator)", ev)

(***************************************************************************)
(* coupling at the return of a public call (fault-free executions)         *)
(***************************************************************************)
SnapOK(d, sn, R, ev) ==
  LET s == ListOf(d)
      reach == SeqToSet(sn.slots) \cup SeqToSet(sn.ext) IN
  /\ Require(sn.problems = <<>>, "inspector found structural damage", ev)
  /\ Require([i \in 1..Len(s.pools) |-> s.pools[i].usage] = sn.usage, "pool usages differ from the model", ev)
  /\ Require(SeqToSet(sn.free) = s.free /\ Len(sn.free) = Cardinality(s.free), "free list differs from the model", ev)
  /\ Require(reach = s.used, "slots in use are not exactly the reachable ones (leak or dangling link)", ev)
  /\ Require(Len(sn.slots) = SlotsIn(R.docs[d].root, {}), "number of value slots differs from the abstract tree", ev)
  /\ Require(Len(sn.strings) = Cardinality(StrOf(d)), "string nodes differ from the model", ev)
  /\ Require(\A i \in 1..Len(sn.strings) : sn.strings[i].refs = sn.strings[i].users /\ sn.strings[i].refs >= 1,
             "a string node's reference count is not its number of users", ev)
  /\ Require(\A i, j \in 1..Len(sn.strings) : sn.strings[i].s = sn.strings[j].s => i = j,
             "equal copied strings stored twice", ev)

RefMatches(R, r, lg) ==
  \/ lg.st = "skip"
  \/ /\ R.refs[r].st = lg.st
     /\ lg.st = "live" => Proj(Get(R.docs[R.refs[r].d].root, R.refs[r].p)) = lg.v

DocMatches(R, d, lg) ==
  /\ Proj(R.docs[d].root) = lg.root
  /\ R.docs[d].ovf = lg.ovf
  /\ Ser(R.docs[d].root) = lg.ser

OpEvent(ev) ==
  /\ Require(Legal(St, ev.op), "operation outside the quantifier (harness error)", ev)
  /\ LET R == Step(St, ev.op) IN
       /\ Require(ev.ret = "skip" \/ R.ret = "dontcare" \/ ev.ret = R.ret, "return value differs", ev)
       /\ Require(\A d \in DOMAIN R.docs : DocMatches(R, d, ev.obs.docs[d]), "document differs from Document!Step", ev)
       /\ Require(\A r \in DOMAIN R.refs : RefMatches(R, r, ev.obs.refs[r]), "reference differs from Document!Step", ev)
       /\ \A d \in DOMAIN R.docs : SnapOK(d, ev.snap[d], R, ev)
       /\ Require(OwnerAfter(ev.op) = ev.al, "a document uses an allocator other than the one the model predicts", ev)
       /\ LedgerOK(ev, OwnerAfter(ev.op))
       /\ docs' = R.docs
       /\ refs' = R.refs
       /\ owner' = OwnerAfter(ev.op)
  /\ inOp' = FALSE
  /\ UNCHANGED <<lists, strs, geo, ledger>>

TraceInit ==
  /\ l = 1 /\ docs = <<>> /\ refs = <<>> /\ lists = <<>> /\ strs = <<>>
  /\ geo = [cap |-> 1, init |-> 1, null |-> -1, maxp |-> -1]
  /\ ledger = {} /\ owner = <<>> /\ inOp = FALSE

TraceNext ==
  /\ l <= Len(TraceLog)
  /\ l' = l + 1
  /\ LET ev == TraceLog[l] IN
       CASE ev.e = "reset" ->
              /\ docs' = [d \in 1..ev.nd |-> [root |-> Null, ovf |-> FALSE]]
              /\ refs' = [r \in 1..ev.nr |-> UnboundRef]
              /\ geo' = ev.geo
              /\ lists' = <<>>
              /\ strs' = <<>>
              /\ Require(ledger = {}, "blocks still live when a new world starts", ev)
              /\ ledger' = {}
              /\ owner' = [d \in 1..ev.nd |-> d]
              /\ inOp' = FALSE
         [] ev.e = "begin" -> inOp' = TRUE /\ UNCHANGED <<docs, refs, lists, strs, geo, ledger, owner>>
         [] ev.e = "h" ->
              /\ Require(inOp, "pool or string state changed outside a mutating public call", ev)
              /\ Hook(ev) /\ UNCHANGED <<docs, refs, geo, ledger, owner, inOp>>
         [] ev.e = "m" -> MemEvent(ev) /\ UNCHANGED <<docs, refs, lists, strs, geo, owner, inOp>>
         [] ev.e = "op" -> OpEvent(ev)
         [] ev.e = "destroy" ->
              /\ Require(ledger = {}, "blocks still live after every document was destroyed", ev)
              /\ inOp' = FALSE
              /\ UNCHANGED <<docs, refs, lists, strs, geo, ledger, owner>>

TraceSpec == TraceInit /\ [][TraceNext]_mvars

\* invariants of SlotPool.tla evaluated on the reconstructed state after every event
TraceInv ==
  \A L \in DOMAIN lists :
    LET s == lists[L] IN
    /\ s.used \cap s.free = {}
    /\ Cardinality(s.used) + Cardinality(s.free) = SumUsage(s.pools)
    /\ Bounded => (\A id \in s.used \cup s.free : id < geo.null)
    /\ Bounded => Len(s.pools) <= geo.maxp
    /\ \A i \in 1..Len(s.pools) : s.pools[i].usage <= s.pools[i].cap

Accepted ==
  /\ PrintT(<<"TRACE-DEPTH", TLCGet("stats").diameter - 1, Len(TraceLog)>>)
  /\ TLCGet("stats").diameter - 1 = Len(TraceLog)
=============================================================================
