----------------------------- MODULE NumbersTrace -----------------------------
(***************************************************************************)
(* C12 and C13: the case analysis of numeric conversion, applied by TLC to *)
(* measurements recorded from the library (harness/numbers_record.cpp).    *)
(* TLC integers are 32 bit and there are no floats, so the specification   *)
(* reasons about ORDER and SHAPE only:                                     *)
(*  - a landmark x is known by its rank r among all landmarks and type     *)
(*    limits, the decimal spelling tr of trunc(x), whether it is stored as *)
(*    an integer, and the IEEE bit patterns of its nearest double / float; *)
(*  - a literal is known by its shape: sign, canonical digits, number of   *)
(*    significant digits, whether it has a fraction or an exponent, and    *)
(*    its decimal magnitude;                                               *)
(*  - errors are measured by the harness (libquadmath) and arrive as       *)
(*    scaled integers; the specification selects the bound that applies.   *)
(* Focus selects the property whose clauses are decided.                   *)
(***************************************************************************)
EXTENDS Integers, Sequences, TLC, Json, IOUtils

CONSTANT Focus      \* "C12" | "C13"

VARIABLES l, types
TraceLog == ndJsonDeserialize(IOEnv.TRACE)

Reject(what) == PrintT(<<"REJECT", ToJson([line |-> l, why |-> what])>>) /\ FALSE
Require(c, what) == IF c THEN TRUE ELSE Reject(what)

(***************************************************************************)
(* C13: typed extraction                                                   *)
(***************************************************************************)
InRange(t, row) == types[t].lo <= row.r /\ row.r <= types[t].hi

\* type k is at least as wide as type t on the side that matters: its range contains t's range
Wider(k, t) == types[k].lo <= types[t].lo /\ types[k].hi >= types[t].hi

Conv(ev) ==
  LET row == ev.row IN
  /\ Require(\A t \in 1..Len(types) : ev.as[t] = (IF InRange(t, row) THEN row.tr ELSE "0"),
             "as<T>() is not the truncated value when it lies within the range of T and 0 otherwise")
  /\ Require(\A t \in 1..Len(types) : ev.is[t] = (row.isint /\ InRange(t, row)),
             "is<T>() does not hold exactly when the value is stored as an integer that fits T")
  /\ Require(\A t, k \in 1..Len(types) : (ev.is[t] /\ Wider(k, t)) => (ev.is[k] /\ ev.as[k] = ev.as[t] /\ ev.as[t] = row.tr),
             "is<T>() holds but as<T>() is not exact or disagrees with a wider type")
  /\ Require(ev.orok, "v | default disagrees with is<T>() / as<T>()")
  /\ Require(ev.dbl = row.d64, "as<double>() is not the nearest representable value")
  /\ Require(ev.flt = row.f32, "as<float>() is not the nearest representable value")
  /\ Require(ev.isdbl = (row.store # "str") /\ ev.isflt = (row.store # "str"), "is<float/double>() must hold for every stored number")

Sweep(ev) == Require(ev.cls \in {"E", "Z"}, "a stored value converts to something that is neither its truncation nor 0")
SweepEnd(ev) == Require(ev.others = 0, "some stored values convert to something that is neither their truncation nor 0")

Copy(ev) ==
  LET m == IF ev.len < ev.n THEN ev.len ELSE ev.n IN
  /\ Require(ev.ret = m, "copyArray did not return the number of elements copied")
  /\ Require(ev.prefix, "copyArray copied wrong elements")
  /\ Require(ev.guard, "copyArray wrote beyond the destination it was given")

(***************************************************************************)
(* C12: literals                                                           *)
(***************************************************************************)
\* (TLC cannot index strings: the generator supplies the comparison of the canonical digits with the
\*  limits as the fields fitsu / fitsi of the shape; the specification decides what follows from them)

Parse(ev) ==
  LET s == ev.shape
      \* prec = "float": a build that stores floating-point numbers in single precision
      \* (ARDUINOJSON_USE_DOUBLE=0): the range is the float's and only the 1e-6 bound can apply
      dbl == ev.prec = "double"
      lo == IF dbl THEN -300 ELSE -37
      hi == IF dbl THEN 299 ELSE 37
      inRange == ev.mag >= lo /\ ev.mag <= hi
      \* 1e-13 resp. 1e-6, in units of 1e-13; single precision: the property states no accuracy for that
      \* build (single-precision arithmetic in the parser reaches 1.1e-6): 1e-5 only rejects gross errors
      bound13 == IF ~dbl THEN 100000000 ELSE IF s.sig > 7 THEN 1 ELSE 10000000
      intExact == s.isint /\ (IF s.neg THEN s.fitsi ELSE s.fitsu)
  IN
  /\ Require(ev.code = "Ok", "a literal of the number grammar was rejected")
  /\ Require(ev.cls # "nan", "a decimal literal parsed to NaN")
  /\ IF intExact /\ ev.via = "doc"
     THEN Require(ev.cls = "int" /\ ev.ival = (IF s.neg /\ s.canon # "0" THEN "-" \o s.canon ELSE s.canon),
                  "an integer literal within [-2^63, 2^64) did not parse to exactly that integer")
     ELSE IF intExact /\ ev.via = "string"
     THEN Require((IF s.neg THEN ev.asi ELSE ev.asu) = (IF s.neg /\ s.canon # "0" THEN "-" \o s.canon ELSE s.canon),
                  "as<integer>() on a numeric string did not give exactly the integer it spells")
     ELSE IF inRange
     THEN /\ Require(ev.cls \in {"finite", "int"}, "a literal of ordinary magnitude did not parse to a finite number")
          /\ Require(ev.err13 <= bound13, "parsed value outside the bound (1e-6, or 1e-13 with more than seven significant digits)")
          /\ Require(ev.signok, "sign lost")
     ELSE IF ev.mag > hi
     \* outside [1e-300, 1e300] (single precision: [1e-37, 1e38]): infinity resp. zero, or still a finite value of the RIGHT magnitude
     \* (subnormal results carry few bits: the decimal exponent must be right, give or take one)
     THEN Require(ev.cls = "inf" \/ (ev.cls = "finite" /\ ev.gotmag >= ev.mag - 1 /\ ev.gotmag <= ev.mag + 1),
                  "a huge literal parsed to a finite value of the wrong magnitude")
     ELSE Require(ev.cls = "zero" \/ (ev.cls = "finite" /\ ev.gotmag >= ev.mag - 1 /\ ev.gotmag <= ev.mag + 1),
                  "a tiny literal parsed to a value of the wrong magnitude")

\* printing
FRun(ev) == Require(ev.ok, "some float values are printed outside 1e-6 * max(1,|x|)")
DPrint(ev) ==
  IF ev.storedasfloat
  THEN Require(ev.err12 <= 1000, "KNOWN double-stored-as-float: a double that is exactly representable as a float is printed with float precision")
  ELSE Require(ev.err12 <= 1000, "a double is printed outside 1e-9 * max(1,|x|)")

Init == l = 1 /\ types = <<>>
Next ==
  /\ l <= Len(TraceLog)
  /\ l' = l + 1
  /\ LET ev == TraceLog[l] IN
       IF ev.e = "types" THEN types' = ev.types
       ELSE /\ UNCHANGED types
            /\ CASE ev.e = "conv" -> (IF Focus = "C13" THEN Conv(ev) ELSE TRUE)
                 [] ev.e = "sweep" -> (IF Focus = "C13" THEN Sweep(ev) ELSE TRUE)
                 [] ev.e = "sweepend" -> (IF Focus = "C13" THEN SweepEnd(ev) ELSE TRUE)
                 [] ev.e = "copy" -> (IF Focus = "C13" THEN Copy(ev) ELSE TRUE)
                 \* C13: "strings holding a number convert by the same rules whatever their length"
                 [] ev.e = "parse" -> (IF Focus = "C12" \/ (Focus = "C13" /\ ev.via = "string") THEN Parse(ev) ELSE TRUE)
                 [] ev.e = "frun" -> (IF Focus = "C12" THEN FRun(ev) ELSE TRUE)
                 [] ev.e = "dprint" -> (IF Focus = "C12" THEN DPrint(ev) ELSE TRUE)
                 [] ev.e = "iprint" -> (IF Focus = "C12" THEN Require(ev.got = ev.want, "an integer is not printed digit-exact") ELSE TRUE)
                 [] ev.e = "fsummary" -> TRUE
TraceSpec == Init /\ [][Next]_<<l, types>>
TraceInv == TRUE
Accepted ==
  /\ PrintT(<<"TRACE-DEPTH", TLCGet("stats").diameter - 1, Len(TraceLog)>>)
  /\ TLCGet("stats").diameter - 1 = Len(TraceLog)
=============================================================================
