---------------------------- MODULE JsonReaderMC ----------------------------
(***************************************************************************)
(* Bounded-exhaustive exploration of JsonReader.tla: the state is an input *)
(* (a sequence of symbols, each symbol a byte sequence: single bytes for   *)
(* character-level runs, whole tokens for token-level runs); Next appends  *)
(* one symbol, so TLC visits every symbol string up to MaxLen.  For every  *)
(* input, every nesting limit in Limits and every filter in Filters the    *)
(* invariant checks the model-level properties and emits one test case for *)
(* the replay harness.                                                     *)
(***************************************************************************)
EXTENDS JsonReader, Json

CONSTANTS SymbolSet,   \* name of the symbol alphabet (see Symbols below)
          MaxLen,      \* maximal number of symbols
          Limits,      \* set of nesting limits
          FilterSet,   \* "none" | "small"
          OptComments, OptNan, OptInf, OptUnicode,
          EmitOn

Opts == [comments |-> OptComments, nan |-> OptNan, inf |-> OptInf, unicode |-> OptUnicode]

\* byte sequence of an ASCII string literal, for the symbol tables
Chr == [c \in {"[", "]", "{", "}", ",", ":", "\"", "'", "\\", "/", "*", " ", "\n", "0", "1", "2", "-", "+", ".",
               "e", "E", "a", "b", "t", "r", "u", "n", "l", "f", "s", "N", "I", "_", "x", "9", "d", "D", "8", "c"} |->
  CASE c = "[" -> 91 [] c = "]" -> 93 [] c = "{" -> 123 [] c = "}" -> 125 [] c = "," -> 44 [] c = ":" -> 58
    [] c = "\"" -> 34 [] c = "'" -> 39 [] c = "\\" -> 92 [] c = "/" -> 47 [] c = "*" -> 42 [] c = " " -> 32
    [] c = "\n" -> 10 [] c = "0" -> 48 [] c = "1" -> 49 [] c = "2" -> 50 [] c = "-" -> 45 [] c = "+" -> 43
    [] c = "." -> 46 [] c = "e" -> 101 [] c = "E" -> 69 [] c = "a" -> 97 [] c = "b" -> 98 [] c = "t" -> 116
    [] c = "r" -> 114 [] c = "u" -> 117 [] c = "n" -> 110 [] c = "l" -> 108 [] c = "f" -> 102 [] c = "s" -> 115
    [] c = "N" -> 78 [] c = "I" -> 73 [] c = "_" -> 95 [] c = "x" -> 120 [] c = "9" -> 57 [] c = "d" -> 100
    [] c = "D" -> 68 [] c = "8" -> 56 [] c = "c" -> 99]
B(seq) == [i \in 1..Len(seq) |-> Chr[seq[i]]]

Symbols ==
  CASE SymbolSet = "chars" ->     \* structural characters, one digit, one letter, space
         {B(<<c>>) : c \in {"[", "]", "{", "}", ",", ":", "\"", "1", "a", " "}}
    [] SymbolSet = "string" ->    \* inside and around a string
         {B(<<c>>) : c \in {"\"", "'", "\\", "u", "0", "d", "D", "8", "a", "n", "x"}} \cup {<<0>>, <<200>>}
    [] SymbolSet = "number" ->    \* number characters and their neighbourhood
         {B(<<c>>) : c \in {"0", "1", "9", "-", "+", ".", "e", "E", " ", ",", "x"}}
    [] SymbolSet = "comment" ->
         {B(<<c>>) : c \in {"/", "*", "\n", " ", "1", "[", "]", "x"}} \cup {B(<<"/", "*">>), B(<<"*", "/">>)}
    [] SymbolSet = "keyword" ->
         {B(<<c>>) : c \in {"t", "r", "u", "e", "n", "l", "N", "I", "a", " ", "f", "s"}}
    [] SymbolSet = "hex" ->       \* \u escapes: characters next to the hex digits in the ASCII table
         {B(<<"\"", "\\", "u", "0", "0">>), B(<<"\"">>), B(<<":">>), B(<<"/">>), B(<<"9">>), B(<<"a">>),
          B(<<"D">>), <<96>>, <<64>>, <<71>>, <<103>>, <<63>>, <<59>>}
    [] SymbolSet = "nulkey" ->    \* keys that differ only after an embedded NUL
         {B(<<"{">>), B(<<"}">>), B(<<",">>), B(<<":">>), B(<<"1">>), B(<<"2">>),
          B(<<"\"", "a", "\"">>), B(<<"\"", "a", "\\", "u", "0", "0", "0", "0", "b", "\"">>),
          B(<<"\"", "a", "\\", "u", "0", "0", "0", "0", "c", "\"">>)}
    [] SymbolSet = "tokens" ->    \* whole tokens: deeper structures for the same number of symbols
         {B(<<"[">>), B(<<"]">>), B(<<"{">>), B(<<"}">>), B(<<",">>), B(<<":">>), B(<<" ">>),
          B(<<"\"", "a", "\"">>), B(<<"\"", "b", "\"">>), B(<<"'", "a", "'">>), B(<<"a">>),
          B(<<"1">>), B(<<"-", "2", ".", "1", "e", "1">>), B(<<"t", "r", "u", "e">>), B(<<"n", "u", "l", "l">>),
          B(<<"t", "r", "u">>), B(<<"\"", "a">>), B(<<"\"", "\\", "n", "\"">>)}

VARIABLE syms            \* sequence of symbols

RECURSIVE Flatten(_)
Flatten(ss) == IF ss = <<>> THEN <<>> ELSE Head(ss) \o Flatten(Tail(ss))

Init == syms = <<>>
Next == Len(syms) < MaxLen /\ \E s \in Symbols : syms' = Append(syms, s)
Spec == Init /\ [][Next]_syms

KeyA == <<97>>
Filters ==
  IF FilterSet = "none" THEN {TrueV}
  ELSE {TrueV, FalseV, NullV, ArrB(<<>>), ObjB(<<>>), ArrB(<<TrueV>>), ArrB(<<ArrB(<<TrueV>>)>>),
        ObjB(<<MemB(KeyA, TrueV)>>), ObjB(<<MemB(Star, TrueV)>>),
        ObjB(<<MemB(KeyA, FalseV), MemB(Star, TrueV)>>),
        ObjB(<<MemB(KeyA, ArrB(<<TrueV>>))>>), ArrB(<<ObjB(<<MemB(KeyA, TrueV)>>)>>),
        ObjB(<<MemB(Star, ObjB(<<MemB(KeyA, TrueV)>>))>>)}

Codes == {"Ok", "EmptyInput", "IncompleteInput", "InvalidInput", "NoMemory", "TooDeep"}

\* the byte-value nodes contain no TLC-incomparable parts: results are compared with =
Props(inp, lim) ==
  LET r == DeserializeJson(inp, Opts, lim, TrueV) IN
  /\ r.code \in Codes
  \* C15: the recursion never goes deeper than the limit allows, TooDeep exactly there
  /\ r.depth <= lim + (IF r.code = "TooDeep" THEN 0 ELSE 0)
  /\ r.code = "Ok" => NestingB(r.v) <= lim
  \* C16: the result is a function of the bytes taken from the input
  /\ r.code = "Ok" =>
       LET r2 == DeserializeJson(SubSeq(inp, 1, r.read), Opts, lim, TrueV)
       IN r2.code = "Ok" /\ r2.v = r.v /\ r2.read = r.read
  \* C10: an input that ends before its top-level array, object or string is closed is never accepted
  /\ (r.code = "Ok" /\ r.v.t \in {"a", "o", "s"}) => (r.read >= 1 /\ inp[r.read] \in {93, 125, 34, 39})
  \* C10: only whitespace (and comments) => EmptyInput, and only then
  /\ (r.code = "EmptyInput") <=>
        (SkipWs(inp, 1, Opts, FALSE).code = "EmptyInput")
  \* C11: filtering = projecting the unfiltered result
  /\ r.code = "Ok" =>
       \A f \in Filters :
          LET rf == DeserializeJson(inp, Opts, lim, f) IN
          rf.code = "Ok" /\ rf.v = Project(r.v, f)

Case(inp, lim, f) ==
  LET r == DeserializeJson(inp, Opts, lim, f) IN
  [inp |-> inp, lim |-> lim, f |-> f, o |-> Opts, code |-> r.code, v |-> r.v, read |-> r.read,
   weird |-> (r.v.t = "#" /\ WeirdNumber(r.v.b))]

Check ==
  LET inp == Flatten(syms) IN
  /\ \A lim \in Limits : Props(inp, lim)
  /\ IF EmitOn
     THEN \A lim \in Limits : \A f \in Filters :
            PrintT(<<"CASE", ToJson(Case(inp, lim, f))>>)
     ELSE TRUE
=============================================================================
