----------------------------- MODULE DocumentMC -----------------------------
(***************************************************************************)
(* Bounded instance of Document.tla for TLC:                               *)
(*  - exhaustive exploration of the abstract states reachable within       *)
(*    MaxOps operations (hist is hidden by VIEW), with every GENERATED     *)
(*    transition emitted as one behaviour for the replay harness           *)
(*    (ACTION_CONSTRAINT Emit: history reaching the state, the operation,  *)
(*    the expected observation);                                           *)
(*  - the same module in -simulate mode gives long random behaviours.      *)
(***************************************************************************)
EXTENDS Document, Json

CONSTANTS NDocs, NRefs, Keys, MaxIdx, MaxPath, MaxOps, MaxNodes, MaxDepth,
          EmitOn, EmitMod, Profile

VARIABLES docs, refs, hist, ret

vars == <<docs, refs, hist, ret>>
St == [docs |-> docs, refs |-> refs]

DocIds == 1..NDocs
RefIds == 1..NRefs

Scalars ==
  IF Profile = "tiny" THEN {IntV("1"), StrV("a")}
  ELSE IF Profile = "strings"
  THEN {StrV("a"), StrV("ab"), StrV(""), StrV("42"), StrV("1.5"), StrV("-3e2"),
        StrV("a%00b"), StrV("%80%FF"), IntV("7"), LnkV("a"), LnkV("42")}
  ELSE {Null, BoolV(TRUE), IntV("1"), IntV("1099511627776"), FltV("1.5"),
        FltV("0.1"), StrV("a"), StrV("b"), RawV("[7]"), LnkV("a")}

Steps == {KeyStep(k) : k \in Keys} \cup {IdxStep(i) : i \in 0..MaxIdx}

RECURSIVE PathsUpTo(_)
PathsUpTo(n) ==
  IF n = 0 THEN {<<>>}
  ELSE LET shorter == PathsUpTo(n - 1)
       IN shorter \cup {Append(p, st) : p \in {q \in shorter : Len(q) = n - 1}, st \in Steps}

Paths == PathsUpTo(MaxPath)

Texts == << [x |-> "[1,2]", v |-> Arr(<<IntV("1"), IntV("2")>>)],
            [x |-> "{\"a\":{\"b\":null},\"c\":\"a\"}",
             v |-> Obj(<<Mem("a", Obj(<<Mem("b", Null)>>)), Mem("c", StrV("a"))>>)],
            [x |-> "42", v |-> IntV("42")],
            [x |-> "{\"a\":1,\"b\":[true],\"a\":\"b\"}",
             v |-> Obj(<<Mem("a", StrV("b")), Mem("b", Arr(<<BoolV(TRUE)>>))>>)] >>

Bases == {<<"d", d>> : d \in DocIds} \cup {<<"r", r>> : r \in RefIds}

None == MkOp("", "", 0, <<>>, Null, "", 0, <<>>, 0, 0, "", "")
T(o, b, p) == [o EXCEPT !.tb = b[1], !.ti = b[2], !.tp = p]
Sx(o, b, p) == [o EXCEPT !.sb = b[1], !.si = b[2], !.sp = p]

Ops ==
  LET N(name) == [None EXCEPT !.op = name] IN
     {[T(N("set"), b, p) EXCEPT !.v = v] : b \in Bases, p \in Paths, v \in Scalars}
  \cup {[T(N("to"), b, p) EXCEPT !.v = v, !.r = r] :
          b \in Bases, p \in Paths, v \in {Null, Arr(<<>>), Obj(<<>>)}, r \in 0..NRefs}
  \cup {[T(N("add"), b, p) EXCEPT !.v = v] : b \in Bases, p \in Paths, v \in Scalars}
  \cup {[T(N("addnew"), b, p) EXCEPT !.v = v, !.r = r] :
          b \in Bases, p \in Paths, v \in {Null, Arr(<<>>), Obj(<<>>)}, r \in 0..NRefs}
  \cup {[T(N("bind"), b, p) EXCEPT !.r = r] : b \in Bases, p \in Paths, r \in RefIds}
  \cup {[T(N("rmidx"), b, p) EXCEPT !.i = i] : b \in Bases, p \in Paths, i \in 0..MaxIdx}
  \cup {[T(N("rmkey"), b, p) EXCEPT !.k = k] : b \in Bases, p \in Paths, k \in Keys}
  \cup {Sx(T(N("copy"), b, p), b2, p2) : b \in Bases, p \in Paths, b2 \in Bases, p2 \in Paths}
  \cup (IF Profile = "strings"
        THEN {[Sx(T(N("setprefix"), b, p), b2, p2) EXCEPT !.i = i] :
                b \in Bases, p \in Paths, b2 \in Bases, p2 \in Paths, i \in 0..2}
        ELSE {})
  \cup {Sx([N("docset") EXCEPT !.tb = "d", !.ti = d], b2, p2) :
          d \in DocIds, b2 \in Bases, p2 \in Paths}
  \cup {[N("docsetv") EXCEPT !.tb = "d", !.ti = d, !.v = v] : d \in DocIds, v \in Scalars}
  \cup {[N("docto") EXCEPT !.tb = "d", !.ti = d, !.v = v, !.r = r] :
          d \in DocIds, v \in {Null, Arr(<<>>), Obj(<<>>)}, r \in 0..NRefs}
  \cup {[N(nm) EXCEPT !.tb = "d", !.ti = d] : nm \in {"docclear", "shrink"}, d \in DocIds}
  \cup {[N(nm) EXCEPT !.tb = "d", !.ti = d, !.sb = "d", !.si = d2] :
          nm \in {"assign", "move", "swap"}, d \in DocIds, d2 \in DocIds}
  \cup {[T(N("deser"), b, p) EXCEPT !.v = Texts[j].v, !.x = Texts[j].x] :
          b \in Bases, p \in Paths, j \in 1..Len(Texts)}

WithinBounds(S) ==
  \A d \in DocIds : Nodes(S.docs[d].root) <= MaxNodes /\ Nesting(S.docs[d].root) <= MaxDepth

Init ==
  /\ docs = [d \in DocIds |-> [root |-> Null, ovf |-> FALSE]]
  /\ refs = [r \in RefIds |-> UnboundRef]
  /\ hist = <<>>
  /\ ret = ""

Next ==
  /\ Len(hist) < MaxOps
  /\ \E o \in Ops :
       /\ Legal(St, o)
       /\ LET R == Step(St, o) IN
            /\ WithinBounds(R)
            /\ docs' = R.docs
            /\ refs' = R.refs
            /\ ret' = R.ret
            /\ hist' = Append(hist, o)

Spec == Init /\ [][Next]_vars

\* the length of the history is part of the view so that the MaxOps bound (and hence the
\* explored set) does not depend on which history reaches a state first
View == <<docs, refs, Len(hist)>>

\* one line per generated transition: the history, and what must be observed
Emit ==
  IF EmitOn /\ (EmitMod = 1 \/ RandomElement(1..EmitMod) = 1)
  THEN PrintT(<<"BEHAVIOUR", ToJson([ops |-> hist', ret |-> ret',
                                    obs |-> Obs([docs |-> docs', refs |-> refs'])])>>)
  ELSE TRUE

TypeOK ==
  /\ \A d \in DocIds : docs[d].root.t \in {"n", "b", "i", "f", "s", "l", "r", "a", "o"}
  /\ \A r \in RefIds : refs[r].st \in {"unbound", "live", "dead"}

Inv ==
  /\ TypeOK
  /\ RefsDesignate(St)
  /\ \A d \in DocIds : UniqueKeys(docs[d].root)

\* read-only operations leave every document unchanged
ReadOnlyStutter ==
  [][hist' # hist /\ hist'[Len(hist')].op \in {"bind", "shrink"} => docs' = docs]_vars

\* a live reference that an operation does not kill keeps designating the same
\* value unless the operation's target overlaps it
RefStable ==
  [][\A r \in RefIds :
       (refs[r].st = "live" /\ refs'[r].st = "live" /\ hist' # hist
        /\ LET o == hist'[Len(hist')] IN
             /\ o.r # r
             /\ o.op \in {"set", "to", "add", "addnew", "rmidx", "rmkey", "copy", "deser"}
             /\ BaseBound(St, o.tb, o.ti)
             /\ ~(BaseDoc(St, o.tb, o.ti) = refs[r].d
                  /\ Overlap(BasePath(St, o.tb, o.ti) \o o.tp, refs[r].p)))
       => Get(docs'[refs'[r].d].root, refs'[r].p) = Get(docs[refs[r].d].root, refs[r].p)]_vars
=============================================================================
