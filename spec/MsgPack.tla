------------------------------- MODULE MsgPack -------------------------------
(***************************************************************************)
(* The MessagePack format as ArduinoJson reads and writes it.              *)
(*                                                                         *)
(* Decode(inp, lim, f) is shaped like MsgPackDeserializer.hpp (one header  *)
(* byte, size bytes, length-driven payload reads, null destination for     *)
(* filtered values, nesting limit checked when a container header has been *)
(* read, the length of a string checked against the configured maximum     *)
(* BEFORE its payload is read) and at the same time IS the definition of   *)
(* the format for the other modules: a byte string e is an encoding of v   *)
(* iff Decode(e) = Ok v with every byte consumed.                          *)
(* Canon(v) is the serializer's choice of encoding (MsgPackSerializer.hpp).*)
(*                                                                         *)
(* Values are byte-level nodes [t, b, c] (see JsonReader.tla) with         *)
(*   "i+" non-negative integer, b = 8 bytes big-endian magnitude           *)
(*   "i-" negative integer,     b = 8 bytes big-endian two's complement    *)
(*   "f4" / "f8" float32 / float64, b = the IEEE-754 bytes as transmitted  *)
(*   "r"  bin / ext, b = header and payload verbatim                       *)
(* Lengths use TLC's 32-bit integers: a declared length of 2^31 or more is *)
(* represented by Huge (any number larger than every input and limit).     *)
(***************************************************************************)
EXTENDS JsonReader

CONSTANT MaxStrLen      \* StringNode::maxLength of the build (255, 65535, or Huge for 4-byte lengths)

Huge == 2000000000

R(code, v, p, d) == [code |-> code, v |-> v, p |-> p, d |-> d]     \* p = next unread position

Avail(inp, p, n) == n <= Len(inp) /\ p + n - 1 <= Len(inp)      \* (n may be Huge: no overflow)
Bytes(inp, p, n) == SubSeq(inp, p, p + n - 1)

BE(bs) ==      \* big-endian value of up to 4 bytes, Huge when it does not fit 31 bits
  LET RECURSIVE V(_, _)
      V(s, acc) == IF s = <<>> THEN acc
                   ELSE IF acc >= 8388608 THEN Huge ELSE V(Tail(s), acc * 256 + Head(s))
  IN V(bs, 0)

ZeroExt(bs) == [i \in 1..(8 - Len(bs)) |-> 0] \o bs
SignExt(bs) == [i \in 1..(8 - Len(bs)) |-> IF bs[1] >= 128 THEN 255 ELSE 0] \o bs
IntNode(bs, signed) ==
  IF signed /\ bs[1] >= 128 THEN N("i-", SignExt(bs), <<>>) ELSE N("i+", ZeroExt(bs), <<>>)

IsStrHeader(c) == (c >= 160 /\ c <= 191) \/ c \in {217, 218, 219}

\* number of size bytes after the header byte
SizeBytes(c) ==
  CASE c \in {196, 199, 217} -> 1
    [] c \in {197, 200, 218, 220, 222} -> 2
    [] c \in {198, 201, 219, 221, 223} -> 4
    [] OTHER -> 0

(***************************************************************************)
(* the decoder                                                             *)
(***************************************************************************)
RECURSIVE DecodeVariant(_, _, _, _, _)
RECURSIVE DecodeArray(_, _, _, _, _, _, _, _)
RECURSIVE DecodeMap(_, _, _, _, _, _, _, _)

\* payload of n bytes starting at p, kept (string / raw) or skipped
ReadPayload(inp, p, n, keep, mk(_), lvl, prefix) ==
  IF keep /\ n + Len(prefix) > MaxStrLen THEN R("NoMemory", NullV, p, lvl)     \* buffer of the declared length reserved first
  ELSE IF ~Avail(inp, p, n) THEN R("IncompleteInput", NullV, Len(inp) + 1, lvl)
  ELSE R("Ok", IF keep THEN mk(prefix \o Bytes(inp, p, n)) ELSE NullV, p + n, lvl)

DecodeVariant(inp, p, lim, f, lvl) ==
  IF ~Avail(inp, p, 1) THEN R("IncompleteInput", NullV, p, lvl)
  ELSE
  LET c == inp[p]
      av == AllowValue(f)
      Fixed(n, mk(_)) ==       \* n payload bytes right after the header byte
        IF ~Avail(inp, p + 1, n) THEN R("IncompleteInput", NullV, Len(inp) + 1, lvl)
        ELSE R("Ok", IF av THEN mk(Bytes(inp, p + 1, n)) ELSE NullV, p + 1 + n, lvl)
  IN
  IF c <= 127 THEN R("Ok", IF av THEN N("i+", ZeroExt(<<c>>), <<>>) ELSE NullV, p + 1, lvl)
  ELSE IF c >= 224 THEN R("Ok", IF av THEN N("i-", SignExt(<<c>>), <<>>) ELSE NullV, p + 1, lvl)
  ELSE IF c = 192 THEN R("Ok", NullV, p + 1, lvl)
  ELSE IF c = 193 THEN R("InvalidInput", NullV, p + 1, lvl)
  ELSE IF c = 194 THEN R("Ok", IF av THEN FalseV ELSE NullV, p + 1, lvl)
  ELSE IF c = 195 THEN R("Ok", IF av THEN TrueV ELSE NullV, p + 1, lvl)
  ELSE IF c >= 204 /\ c <= 207 THEN
       LET w == CASE c = 204 -> 1 [] c = 205 -> 2 [] c = 206 -> 4 [] c = 207 -> 8
           mk(bs) == IntNode(bs, FALSE) IN Fixed(w, mk)
  ELSE IF c >= 208 /\ c <= 211 THEN
       LET w == CASE c = 208 -> 1 [] c = 209 -> 2 [] c = 210 -> 4 [] c = 211 -> 8
           mk(bs) == IntNode(bs, TRUE) IN Fixed(w, mk)
  ELSE IF c = 202 THEN LET mk(bs) == N("f4", bs, <<>>) IN Fixed(4, mk)
  ELSE IF c = 203 THEN LET mk(bs) == N("f8", bs, <<>>) IN Fixed(8, mk)
  ELSE
    \* everything else carries a size: fix families in the header byte, the others in 1, 2 or 4 size bytes
    LET sb == SizeBytes(c) IN
    IF ~Avail(inp, p + 1, sb) THEN R("IncompleteInput", NullV, Len(inp) + 1, lvl)
    ELSE
    LET size == IF sb > 0 THEN BE(Bytes(inp, p + 1, sb))
                ELSE IF c >= 144 /\ c <= 159 THEN c - 144
                ELSE IF c >= 128 /\ c <= 143 THEN c - 128
                ELSE IF c >= 160 /\ c <= 191 THEN c - 160
                ELSE IF c >= 212 /\ c <= 216 THEN CASE c = 212 -> 1 [] c = 213 -> 2 [] c = 214 -> 4 [] c = 215 -> 8 [] c = 216 -> 16
                ELSE 0
        q == p + 1 + sb
        isExt == (c >= 199 /\ c <= 201) \/ (c >= 212 /\ c <= 216)
        mkS(bs) == StrB(bs)
        mkR(bs) == N("r", bs, <<>>)
    IN
    IF (c >= 144 /\ c <= 159) \/ c \in {220, 221} THEN
       IF lim = 0 THEN R("TooDeep", NullV, q, lvl)
       ELSE DecodeArray(inp, q, IF size > Len(inp) THEN Len(inp) + 1 ELSE size, lim - 1, f, lvl + 1, <<>>, lvl + 1)
    ELSE IF (c >= 128 /\ c <= 143) \/ c \in {222, 223} THEN
       IF lim = 0 THEN R("TooDeep", NullV, q, lvl)
       ELSE DecodeMap(inp, q, IF size > Len(inp) THEN Len(inp) + 1 ELSE size, lim - 1, f, lvl + 1, <<>>, lvl + 1)
    ELSE IF IsStrHeader(c) THEN ReadPayload(inp, q, size, av, mkS, lvl, <<>>)
    ELSE \* bin 8/16/32, ext 8/16/32, fixext: kept with their header; an extension has one type byte more
       ReadPayload(inp, q, IF isExt THEN (IF size >= Huge THEN Huge ELSE size + 1) ELSE size, av, mkR, lvl,
                   Bytes(inp, p, 1 + sb))

\* n elements left; f = the ARRAY's filter; acc = elements kept so far
DecodeArray(inp, p, n, lim, f, lvl, acc, dmax) ==
  LET keepArr == AllowArray(f)
      \* "*" stands for object members only: a filter that does not admit arrays discards every element
      ef == IF keepArr THEN SubIdx(f) ELSE UnboundV
      out == IF keepArr THEN ArrB(acc) ELSE NullV IN
  IF n = 0 THEN R("Ok", out, p, dmax)
  ELSE LET e == DecodeVariant(inp, p, lim, ef, lvl) IN
       IF e.code # "Ok" THEN R(e.code, out, e.p, Max2(dmax, e.d))
       ELSE DecodeArray(inp, e.p, n - 1, lim, f, lvl, IF keepArr /\ AllowF(ef) THEN Append(acc, e.v) ELSE acc,
                        Max2(dmax, e.d))

\* key of a map entry: fixstr / str 8 / str 16 / str 32 only
DecodeKey(inp, p) ==
  IF ~Avail(inp, p, 1) THEN [code |-> "IncompleteInput", b |-> <<>>, p |-> p]
  ELSE LET c == inp[p]
           sb == IF c >= 160 /\ c <= 191 THEN 0 ELSE CASE c = 217 -> 1 [] c = 218 -> 2 [] c = 219 -> 4 [] OTHER -> 0 IN
       IF ~IsStrHeader(c) THEN [code |-> "InvalidInput", b |-> <<>>, p |-> p + 1]
       ELSE IF ~Avail(inp, p + 1, sb) THEN [code |-> "IncompleteInput", b |-> <<>>, p |-> Len(inp) + 1]
       ELSE LET size == IF sb = 0 THEN c - 160 ELSE BE(Bytes(inp, p + 1, sb))
                q == p + 1 + sb IN
            IF size > MaxStrLen THEN [code |-> "NoMemory", b |-> <<>>, p |-> q]
            ELSE IF ~Avail(inp, q, size) THEN [code |-> "IncompleteInput", b |-> <<>>, p |-> Len(inp) + 1]
            ELSE [code |-> "Ok", b |-> Bytes(inp, q, size), p |-> q + size]

\* MessagePack maps keep every entry, also entries with equal keys
DecodeMap(inp, p, n, lim, f, lvl, acc, dmax) ==
  LET keepObj == AllowObject(f)
      out == IF keepObj THEN ObjB(acc) ELSE NullV IN
  IF n = 0 THEN R("Ok", out, p, dmax)
  ELSE LET k == DecodeKey(inp, p) IN
       IF k.code # "Ok" THEN R(k.code, out, k.p, dmax)
       ELSE LET mf == IF keepObj THEN SubKey(f, k.b) ELSE UnboundV
                e == DecodeVariant(inp, k.p, lim, mf, lvl)
                acc2 == IF keepObj /\ AllowF(mf) THEN Append(acc, MemB(k.b, e.v)) ELSE acc IN
            IF e.code # "Ok" THEN R(e.code, IF keepObj THEN ObjB(acc2) ELSE NullV, e.p, Max2(dmax, e.d))
            ELSE DecodeMap(inp, e.p, n - 1, lim, f, lvl, acc2, Max2(dmax, e.d))

\* deserializeMsgPack(input, Filter(f), NestingLimit(lim))
DecodeMsgPack(inp, lim, f) ==
  LET r == DecodeVariant(inp, 1, lim, f, 0) IN
  [code |-> IF Len(inp) = 0 THEN "EmptyInput" ELSE r.code,
   v |-> r.v, read |-> IF r.p - 1 > Len(inp) THEN Len(inp) ELSE r.p - 1, depth |-> r.d]

(***************************************************************************)
(* Header widths of a WELL-FORMED encoding: TRUE iff no string, array or   *)
(* map header is wider than its length needs, i.e. the header changes      *)
(* exactly at 31/32, 255/256, 65535/65536 (strings) and 15/16, 65535/65536 *)
(* (arrays, maps).  The objects are walked as one flat sequence: a         *)
(* container adds its children to the number of objects still to come.     *)
(* Integer widths and bin/ext headers are not judged (C08 does not).       *)
(***************************************************************************)
RECURSIVE TightHeaders(_, _, _)
TightHeaders(inp, p, todo) ==
  IF todo = 0 \/ p > Len(inp) THEN TRUE
  ELSE LET c == inp[p]
           B1 == IF p + 1 <= Len(inp) THEN inp[p + 1] ELSE 0
           B2 == IF p + 2 <= Len(inp) THEN BE(Bytes(inp, p + 1, 2)) ELSE 0
           B4 == IF p + 4 <= Len(inp) THEN BE(Bytes(inp, p + 1, 4)) ELSE 0 IN
    IF c <= 127 \/ c >= 224 \/ c \in {192, 193, 194, 195} THEN TightHeaders(inp, p + 1, todo - 1)
    ELSE IF c >= 128 /\ c <= 143 THEN TightHeaders(inp, p + 1, todo - 1 + 2 * (c - 128))
    ELSE IF c >= 144 /\ c <= 159 THEN TightHeaders(inp, p + 1, todo - 1 + (c - 144))
    ELSE IF c >= 160 /\ c <= 191 THEN TightHeaders(inp, p + 1 + (c - 160), todo - 1)
    ELSE IF c = 196 THEN TightHeaders(inp, p + 2 + B1, todo - 1)
    ELSE IF c = 197 THEN TightHeaders(inp, p + 3 + B2, todo - 1)
    ELSE IF c = 198 THEN TightHeaders(inp, p + 5 + B4, todo - 1)
    ELSE IF c = 199 THEN TightHeaders(inp, p + 3 + B1, todo - 1)
    ELSE IF c = 200 THEN TightHeaders(inp, p + 4 + B2, todo - 1)
    ELSE IF c = 201 THEN TightHeaders(inp, p + 6 + B4, todo - 1)
    ELSE IF c = 202 THEN TightHeaders(inp, p + 5, todo - 1)
    ELSE IF c = 203 THEN TightHeaders(inp, p + 9, todo - 1)
    ELSE IF c >= 204 /\ c <= 207 THEN TightHeaders(inp, p + 1 + (CASE c = 204 -> 1 [] c = 205 -> 2 [] c = 206 -> 4 [] c = 207 -> 8), todo - 1)
    ELSE IF c >= 208 /\ c <= 211 THEN TightHeaders(inp, p + 1 + (CASE c = 208 -> 1 [] c = 209 -> 2 [] c = 210 -> 4 [] c = 211 -> 8), todo - 1)
    ELSE IF c >= 212 /\ c <= 216 THEN TightHeaders(inp, p + 2 + (CASE c = 212 -> 1 [] c = 213 -> 2 [] c = 214 -> 4 [] c = 215 -> 8 [] c = 216 -> 16), todo - 1)
    ELSE IF c = 217 THEN B1 >= 32 /\ TightHeaders(inp, p + 2 + B1, todo - 1)
    ELSE IF c = 218 THEN B2 >= 256 /\ TightHeaders(inp, p + 3 + B2, todo - 1)
    ELSE IF c = 219 THEN B4 >= 65536 /\ TightHeaders(inp, p + 5 + B4, todo - 1)
    ELSE IF c = 220 THEN B2 >= 16 /\ TightHeaders(inp, p + 3, todo - 1 + B2)
    ELSE IF c = 221 THEN B4 >= 65536 /\ TightHeaders(inp, p + 5, todo - 1 + B4)
    ELSE IF c = 222 THEN B2 >= 16 /\ TightHeaders(inp, p + 3, todo - 1 + 2 * B2)
    ELSE B4 >= 65536 /\ TightHeaders(inp, p + 5, todo - 1 + 2 * B4)      \* 223

(***************************************************************************)
(* the encoder's choice (MsgPackSerializer.hpp)                            *)
(***************************************************************************)
U16(n) == <<n \div 256, Mod(n, 256)>>
U32(n) == <<n \div 16777216, Mod(n \div 65536, 256), Mod(n \div 256, 256), Mod(n, 256)>>

\* first index of a non-zero (resp. non-255) byte
Lead(bs, pad) == LET idx == {i \in 1..Len(bs) : bs[i] # pad} IN IF idx = {} THEN Len(bs) + 1 ELSE CHOOSE i \in idx : \A j \in idx : i <= j

CanonUInt(b8) ==          \* b8 = 8 bytes magnitude
  LET k == Lead(b8, 0) IN
  IF k >= 8 /\ b8[8] <= 127 THEN <<b8[8]>>
  ELSE IF k >= 8 THEN <<204, b8[8]>>
  ELSE IF k >= 7 THEN <<205>> \o SubSeq(b8, 7, 8)
  ELSE IF k >= 5 THEN <<206>> \o SubSeq(b8, 5, 8)
  ELSE <<207>> \o b8

CanonNeg(b8) ==           \* b8 = two's complement pattern of a negative number
  LET k == Lead(b8, 255) IN
  IF k >= 8 /\ b8[8] >= 224 THEN <<b8[8]>>
  ELSE IF k >= 8 /\ b8[8] >= 128 THEN <<208, b8[8]>>
  ELSE IF (k >= 8) \/ (k = 7 /\ b8[7] >= 128) THEN <<209>> \o SubSeq(b8, 7, 8)
  ELSE IF (k >= 6) \/ (k = 5 /\ b8[5] >= 128) THEN <<210>> \o SubSeq(b8, 5, 8)
  ELSE <<211>> \o b8

StrHeader(n) ==
  IF n < 32 THEN <<160 + n>> ELSE IF n < 256 THEN <<217, n>> ELSE IF n < 65536 THEN <<218>> \o U16(n) ELSE <<219>> \o U32(n)

RECURSIVE Canon(_)
RECURSIVE CanonSeq(_)
CanonSeq(vs) == IF vs = <<>> THEN <<>> ELSE Canon(Head(vs)) \o CanonSeq(Tail(vs))
Canon(v) ==
  CASE v.t \in {"n", "x"} -> <<192>>
    [] v.t = "F" -> <<194>>
    [] v.t = "T" -> <<195>>
    [] v.t = "i+" -> CanonUInt(v.b)
    [] v.t = "i-" -> CanonNeg(v.b)
    [] v.t = "f4" -> <<202>> \o v.b       \* unless integral (then an integer encoding: see FloatAsInt in the harness)
    [] v.t = "f8" -> <<203>> \o v.b       \* unless exactly a float32 / integral
    [] v.t = "s" -> StrHeader(Len(v.b)) \o v.b
    [] v.t = "r" -> v.b
    [] v.t = "m" -> StrHeader(Len(v.b)) \o v.b \o Canon(v.c[1])
    [] v.t = "a" -> (IF Len(v.c) < 16 THEN <<144 + Len(v.c)>>
                     ELSE IF Len(v.c) < 65536 THEN <<220>> \o U16(Len(v.c)) ELSE <<221>> \o U32(Len(v.c)))
                    \o CanonSeq(v.c)
    [] v.t = "o" -> (IF Len(v.c) < 16 THEN <<128 + Len(v.c)>>
                     ELSE IF Len(v.c) < 65536 THEN <<222>> \o U16(Len(v.c)) ELSE <<223>> \o U32(Len(v.c)))
                    \o CanonSeq(v.c)

=============================================================================
