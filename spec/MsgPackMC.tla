------------------------------ MODULE MsgPackMC ------------------------------
(***************************************************************************)
(* Bounded-exhaustive exploration of MsgPack.tla: every byte string over a *)
(* byte alphabet that contains one representative of each header family    *)
(* (and the payload bytes that make short well-formed objects), up to      *)
(* MaxLen bytes; model-level properties checked on every string, one test  *)
(* case emitted per (input, limit, filter).                                *)
(***************************************************************************)
EXTENDS MsgPack, Json

CONSTANTS ByteSet, MaxLen, Limits, FilterSet, EmitOn

VARIABLE inp

Alphabet ==
  CASE ByteSet = "headers" ->   \* nil false true fixint neg-fixint fixarray fixmap fixstr 'a' C1 uint8 int8 bin8 fixext1 array16 str8
         {192, 194, 195, 1, 255, 144, 145, 146, 128, 129, 160, 161, 97, 193, 204, 208, 196, 212, 220, 217, 0}
    [] ByteSet = "widths" ->    \* multi-byte families with zero / small payloads
         {0, 1, 2, 97, 202, 203, 205, 206, 207, 209, 210, 211, 197, 198, 199, 200, 201, 213, 218, 219, 221, 222, 223, 145, 129, 161}

Init == inp = <<>>
Next == Len(inp) < MaxLen /\ \E b \in Alphabet : inp' = Append(inp, b)
Spec == Init /\ [][Next]_inp

KeyA == <<97>>
Filters ==
  IF FilterSet = "none" THEN {TrueV}
  ELSE {TrueV, FalseV, NullV, ArrB(<<>>), ObjB(<<>>), ArrB(<<TrueV>>), ArrB(<<ArrB(<<TrueV>>)>>),
        ObjB(<<MemB(KeyA, TrueV)>>), ObjB(<<MemB(Star, TrueV)>>),
        ObjB(<<MemB(KeyA, FalseV), MemB(Star, TrueV)>>),
        ObjB(<<MemB(KeyA, ArrB(<<TrueV>>))>>), ArrB(<<ObjB(<<MemB(KeyA, TrueV)>>)>>)}

Codes == {"Ok", "EmptyInput", "IncompleteInput", "InvalidInput", "NoMemory", "TooDeep"}

Props(lim) ==
  LET r == DecodeMsgPack(inp, lim, TrueV) IN
  /\ r.code \in Codes
  /\ r.read <= Len(inp)
  /\ r.depth <= lim
  /\ r.code = "Ok" => NestingB(r.v) <= lim
  \* C16: exactly the bytes of one object are consumed and the result depends on them only
  /\ r.code = "Ok" =>
       LET r2 == DecodeMsgPack(SubSeq(inp, 1, r.read), lim, TrueV)
       IN r2.code = "Ok" /\ r2.v = r.v /\ r2.read = r.read
  \* C09: every proper prefix of a well-formed object is IncompleteInput (EmptyInput for the empty one)
  /\ r.code = "Ok" =>
       \A k \in 0..(r.read - 1) :
          DecodeMsgPack(SubSeq(inp, 1, k), lim, TrueV).code = (IF k = 0 THEN "EmptyInput" ELSE "IncompleteInput")
  \* C09: the reserved code gives InvalidInput
  /\ (Len(inp) >= 1 /\ inp[1] = 193) => r.code = "InvalidInput"
  \* C08 / C07: the serializer's encoding of a decoded value decodes to the same value, entirely, and
  \* re-encoding is stable (floats excepted: their encoding depends on the numeric value)
  /\ r.code = "Ok" =>
       LET e == Canon(r.v)
           r3 == DecodeMsgPack(e, lim, TrueV)
       IN r3.code = "Ok" /\ r3.v = r.v /\ r3.read = Len(e) /\ Canon(r3.v) = e
  \* C11
  /\ r.code = "Ok" =>
       \A f \in Filters :
          LET rf == DecodeMsgPack(inp, lim, f) IN rf.code = "Ok" /\ rf.v = Project(r.v, f) /\ rf.read = r.read

Case(lim, f) ==
  LET r == DecodeMsgPack(inp, lim, f) IN
  [fmt |-> "msgpack", inp |-> inp, lim |-> lim, f |-> f,
   o |-> [comments |-> FALSE, nan |-> FALSE, inf |-> FALSE, unicode |-> TRUE],
   code |-> r.code, v |-> r.v, read |-> r.read, weird |-> FALSE, tag |-> "mc"]

Check ==
  /\ \A lim \in Limits : Props(lim)
  /\ IF EmitOn THEN \A lim \in Limits : \A f \in Filters : PrintT(<<"CASE", ToJson(Case(lim, f))>>) ELSE TRUE
=============================================================================
