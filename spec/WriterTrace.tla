----------------------------- MODULE WriterTrace -----------------------------
(***************************************************************************)
(* C02, C08, C07: the serializers, validated on recorded executions.       *)
(*                                                                         *)
(* harness/writer_record.cpp builds documents (chosen by a seeded          *)
(* generator: every scalar kind at boundary values, all 256 byte values in *)
(* strings and keys, nesting, empty containers, raw values) through the    *)
(* API, serializes them to every kind of destination and with every buffer *)
(* capacity, performs the round trips, and logs what it got.  This module  *)
(* decides:                                                                *)
(*  C02  the compact text, parsed by the STRICT (RFC 8259 only) mode of    *)
(*       JsonReader.tla - the independent parser - denotes the document:   *)
(*       strings byte-exact, integers digit-exact (Decimal below), members *)
(*       in order, raw values verbatim, non-finite numbers null, floats    *)
(*       within the bound the value's kind selects (error measured by the  *)
(*       harness); the pretty text differs by insignificant whitespace     *)
(*       only; every destination kind got the same bytes; counts equal     *)
(*       measure*(); the buffer law for every capacity.                    *)
(*  C08  the MessagePack bytes decode (MsgPack.tla) to exactly one object  *)
(*       equal to the document; floats bit-exact as float32/float64 or an  *)
(*       integer encoding of an integral value; buffer law; counts.        *)
(*  C07  round trips.                                                      *)
(***************************************************************************)
EXTENDS MsgPack, Json, IOUtils

CONSTANT Focus     \* "C02" | "C08" | "C07": which property's clauses this run decides

VARIABLE l
TraceLog == ndJsonDeserialize(IOEnv.TRACE)

StrictOpts == [comments |-> FALSE, nan |-> FALSE, inf |-> FALSE, unicode |-> TRUE, strict |-> TRUE]

Reject(what) == PrintT(<<"REJECT", ToJson([line |-> l, why |-> what])>>) /\ FALSE
Require(c, what) == IF c THEN TRUE ELSE Reject(what)

(***************************************************************************)
(* decimal spelling of a 64-bit integer given as 8 big-endian bytes        *)
(***************************************************************************)
IsZero(bs) == \A i \in 1..Len(bs) : bs[i] = 0
\* long division of a big-endian byte string by 10: [q, r]
RECURSIVE Div10(_, _, _)
Div10(bs, i, carry) ==
  IF i > Len(bs) THEN [q |-> <<>>, r |-> carry]
  ELSE LET cur == carry * 256 + bs[i]
           rest == Div10(bs, i + 1, Mod(cur, 10))
       IN [q |-> <<cur \div 10>> \o rest.q, r |-> rest.r]
RECURSIVE DecDigits(_)
DecDigits(bs) == IF IsZero(bs) THEN <<>> ELSE LET d == Div10(bs, 1, 0) IN DecDigits(d.q) \o <<48 + d.r>>
DecimalU(bs) == IF IsZero(bs) THEN <<48>> ELSE DecDigits(bs)
\* two's complement negation
Negate(bs) ==
  LET inv == [i \in 1..Len(bs) |-> 255 - bs[i]]
      RECURSIVE Inc(_, _)
      Inc(s, i) == IF i = 0 THEN s ELSE IF s[i] = 255 THEN Inc([s EXCEPT ![i] = 0], i - 1) ELSE [s EXCEPT ![i] = @ + 1]
  IN Inc(inv, Len(bs))
Decimal(v) == IF v.t = "i-" THEN <<45>> \o DecimalU(Negate(v.b)) ELSE DecimalU(v.b)

NonFinite(v) ==
  \/ v.t = "f8" /\ Mod(v.b[1], 128) = 127 /\ v.b[2] >= 240
  \/ v.t = "f4" /\ Mod(v.b[1], 128) = 127 /\ v.b[2] >= 128

(***************************************************************************)
(* does the parsed JSON value pv denote the document value v ?             *)
(***************************************************************************)
RECURSIVE SameJson(_, _)
SameJson(pv, v) ==
  CASE v.t \in {"n", "x"} -> pv.t = "n"
    [] v.t \in {"T", "F"} -> pv.t = v.t
    [] v.t = "s" -> pv.t = "s" /\ pv.b = v.b
    [] v.t = "#" -> pv.t = "#" /\ pv.b = v.b                     \* a number inside a raw value: verbatim
    [] v.t \in {"i+", "i-"} -> pv.t = "#" /\ pv.b = Decimal(v)
    [] v.t \in {"f4", "f8"} -> IF NonFinite(v) THEN pv.t = "n" ELSE pv.t = "#"     \* accuracy: ferr below
    [] v.t = "r" -> SameJson(pv, v.c[1])                                          \* the value the raw text denotes
    [] v.t = "a" -> pv.t = "a" /\ Len(pv.c) = Len(v.c) /\ \A j \in 1..Len(v.c) : SameJson(pv.c[j], v.c[j])
    [] v.t = "o" -> pv.t = "o" /\ Len(pv.c) = Len(v.c)
                    /\ \A j \in 1..Len(v.c) : pv.c[j].b = v.c[j].b /\ SameJson(pv.c[j].c[1], v.c[j].c[1])

\* insignificant whitespace removed (outside strings)
RECURSIVE StripWs(_, _, _)
StripWs(s, i, inStr) ==
  IF i > Len(s) THEN <<>>
  ELSE LET c == s[i] IN
    IF inStr THEN
      IF c = 92 /\ i < Len(s) THEN <<c, s[i + 1]>> \o StripWs(s, i + 2, TRUE)
      ELSE <<c>> \o StripWs(s, i + 1, c # 34)
    ELSE IF IsWs(c) THEN StripWs(s, i + 1, FALSE)
    ELSE <<c>> \o StripWs(s, i + 1, c = 34)

(***************************************************************************)
(* does the decoded MessagePack value dv denote the document value v ?     *)
(***************************************************************************)
RECURSIVE SameMp(_, _)
SameMp(dv, v) ==
  CASE v.t \in {"n", "x"} -> dv.t = "n"
    [] v.t \in {"T", "F", "s", "i+", "i-"} -> dv = [t |-> v.t, b |-> v.b, c |-> <<>>]
    [] v.t = "r" -> dv.t = "r" /\ dv.b = v.b        \* only MessagePack-shaped raws are generated for this format
    [] v.t \in {"f4", "f8"} -> dv.t \in {"f4", "f8", "i+", "i-"}                    \* which one: "fenc" below
    [] v.t = "a" -> dv.t = "a" /\ Len(dv.c) = Len(v.c) /\ \A j \in 1..Len(v.c) : SameMp(dv.c[j], v.c[j])
    [] v.t = "o" -> dv.t = "o" /\ Len(dv.c) = Len(v.c)
                    /\ \A j \in 1..Len(v.c) : dv.c[j].b = v.c[j].b /\ SameMp(dv.c[j].c[1], v.c[j].c[1])

\* buffer law: caps = <<[cap, ret, prefix, nul, guard, dst]>>; dst names the destination kind
\* ("ptr" = pointer+size, "char[N]" etc. = the fixed-size array overloads with N = cap): one law for all
BufferLaw(caps, len, text) ==
  \A j \in 1..Len(caps) :
    LET k == caps[j]
        m == IF k.cap < len THEN k.cap ELSE len IN
    /\ k.ret = m                 \* the count is the number of bytes produced into the buffer
    /\ k.prefix                  \* exactly the first min(cap, len) bytes of the unbounded output
    /\ k.guard                   \* nothing outside the buffer
    /\ (text => (k.nul <=> len < k.cap))

\* one floating-point value in MessagePack: [k (4 or 8 bytes stored), enc ("f32", "f64", "int", "bad"),
\* same (the encoding denotes exactly the value; for floats bit-exact), integral, f32 (exactly a float32),
\* i64, u64 (integral and inside the signed / unsigned 64-bit range)]
\*   - values that are not integral are written as float32 or float64, bit-exact;
\*   - integral float32 values of the signed 64-bit range are written as integers (the shortcut the
\*     serializer takes for every value that narrows to float32);
\*   - the other integral values (doubles with more than 24 significant bits, [2^63, 2^64)) may come out
\*     either way: the library keeps them as floats, bit-exact, and an integer would denote the same value
FloatEncoding(e) ==
  /\ e.enc \in {"f32", "f64", "int"}
  /\ e.same
  /\ (e.enc = "int" => e.integral /\ (e.i64 \/ e.u64))
  /\ (e.i64 /\ e.f32 => e.enc = "int")

Doc(ev) ==
  LET json == ev.json
      pj == DeserializeJson(json, StrictOpts, 255, TrueV)
      J == ev.cls # "mpraw"       \* a document holding MessagePack bin/ext values has no meaningful JSON form
      M == ev.cls # "jsonraw"     \* a document holding raw JSON text has no meaningful MessagePack form
  IN
  \* C02 ---------------------------------------------------------------
  /\ IF Focus # "C02" THEN TRUE ELSE (
     /\ Require(J => (pj.code = "Ok" /\ pj.read = Len(json)), "compact JSON is not accepted by the strict RFC 8259 parser")
     /\ Require(J => SameJson(pj.v, ev.v), "compact JSON does not denote the document")
     /\ Require(J => StripWs(ev.pretty, 1, FALSE) = StripWs(json, 1, FALSE), "pretty and compact differ by more than insignificant whitespace")
     /\ Require(J => DeserializeJson(ev.pretty, StrictOpts, 255, TrueV).code = "Ok", "pretty JSON is not accepted by the strict parser")
     /\ Require(ev.jsonkinds, "a destination kind received different JSON bytes or returned a different count")
     /\ Require(ev.jsoncount = Len(json) /\ ev.jsonmeasure = Len(json), "serializeJson count / measureJson differ from the bytes produced")
     /\ Require(ev.prettycount = Len(ev.pretty) /\ ev.prettymeasure = Len(ev.pretty), "serializeJsonPretty count / measureJsonPretty differ")
     /\ Require(BufferLaw(ev.jsoncaps, Len(json), TRUE), "JSON buffer law violated")
     /\ Require(BufferLaw(ev.prettycaps, Len(ev.pretty), TRUE), "pretty JSON buffer law violated")
     /\ Require(\A j \in 1..Len(ev.ferr) :
                  ev.ferr[j].err <= (IF ev.ferr[j].k = 4 THEN 1000000 ELSE 1000),
                "a floating-point value is printed outside its bound (1e-6 for float, 1e-9 for double, relative to max(1,|x|))"))
  \* C08 ---------------------------------------------------------------
  /\ IF Focus # "C08" THEN TRUE ELSE (
     LET dm == DecodeMsgPack(ev.mp, 255, TrueV) IN
     /\ Require(M => (dm.code = "Ok" /\ dm.read = Len(ev.mp)), "MessagePack output is not exactly one well-formed object")
     /\ Require(M => SameMp(dm.v, ev.v), "MessagePack output does not denote the document")
     /\ Require(ev.cls = "plain" => TightHeaders(ev.mp, 1, 1),
                "a string, array or map header is wider than the length needs (the header must change at 31/32, 255/256, 65535/65536 resp. 15/16, 65535/65536)")
     /\ Require(\A j \in 1..Len(ev.fenc) : FloatEncoding(ev.fenc[j]),
                "a floating-point value is neither bit-exact float32/float64 nor the integer encoding of the same integral value")
     /\ Require(ev.mpkinds, "a destination kind received different MessagePack bytes or returned a different count")
     /\ Require(ev.mpcount = Len(ev.mp) /\ ev.mpmeasure = Len(ev.mp), "serializeMsgPack count / measureMsgPack differ")
     /\ Require(BufferLaw(ev.mpcaps, Len(ev.mp), FALSE), "MessagePack buffer law violated"))
  \* C07 ---------------------------------------------------------------
  /\ IF Focus # "C07" THEN TRUE ELSE (
     /\ Require(M => ev.rtmp = ev.mp, "MessagePack round trip is not byte-identical")
     /\ Require(ev.rtjsonok, "JSON round trip does not give an equivalent document")
     /\ Require(ev.convok, "JSON -> document -> MessagePack -> document differs from JSON -> document"))

\* documents whose size sits on a 16-bit header boundary: header bytes from the specification's
\* ladder (which MsgPackMC checks to be a legal, decodable encoding), payload compared by the harness
Bulk(ev) ==
  LET head == CASE ev.kind \in {"s", "sl"} -> StrHeader(ev.n)
                [] ev.kind = "a" -> (IF ev.n < 16 THEN <<144 + ev.n>> ELSE IF ev.n < 65536 THEN <<220>> \o U16(ev.n) ELSE <<221>> \o U32(ev.n))
                [] ev.kind = "o" -> (IF ev.n < 16 THEN <<128 + ev.n>> ELSE IF ev.n < 65536 THEN <<222>> \o U16(ev.n) ELSE <<223>> \o U32(ev.n))
  IN
  /\ Require(ev.built, "a document within the limits could not be built")
  /\ IF Focus # "C08" THEN TRUE ELSE (Require(ev.mphead = head, "wrong MessagePack header at a 16-bit boundary")
                                      /\ Require(ev.mppayload, "MessagePack payload differs"))
  /\ IF Focus # "C02" THEN TRUE ELSE Require(ev.jsonok, "JSON text of a large document differs")
  /\ IF Focus = "C07" THEN TRUE ELSE Require(ev.counts, "counts / measure differ for a large document")
  \* "sl" = a string kept by address: it may be longer than a document can store, so it cannot come back
  /\ IF Focus # "C07" \/ (ev.kind = "sl" /\ ev.n > 65535) THEN TRUE ELSE Require(ev.rtmp, "MessagePack round trip of a large document is not byte-identical")

Init == l = 1
Next == l <= Len(TraceLog) /\ l' = l + 1 /\ (IF TraceLog[l].cls = "bulk" THEN Bulk(TraceLog[l]) ELSE Doc(TraceLog[l]))
TraceSpec == Init /\ [][Next]_l
TraceInv == TRUE
Accepted ==
  /\ PrintT(<<"TRACE-DEPTH", TLCGet("stats").diameter - 1, Len(TraceLog)>>)
  /\ TLCGet("stats").diameter - 1 = Len(TraceLog)
=============================================================================
