SPECIFICATION Spec
CONSTANTS
  NDocs = 1
  NRefs = 1
  Keys = {"a"}
  MaxIdx = 1
  MaxPath = 1
  MaxOps = 3
  MaxNodes = 4
  MaxDepth = 2
  EmitOn = FALSE
  Profile = "tiny"
VIEW View
INVARIANT Inv
PROPERTY ReadOnlyStutter
PROPERTY RefStable
CHECK_DEADLOCK FALSE
