----------------------------- MODULE JsonValue -----------------------------
(***************************************************************************)
(* The value domain shared by every module of the ArduinoJson              *)
(* specification and by the trace format of the conformance harnesses.     *)
(*                                                                         *)
(* Every node is a record [t, s, c] with the SAME three fields, so that    *)
(* TLC never has to compare records of different shapes:                   *)
(*   t = "n" null      s = ""                    c = <<>>                  *)
(*   t = "b" boolean   s = "true" | "false"      c = <<>>                  *)
(*   t = "i" integer   s = canonical decimal     c = <<>>                  *)
(*   t = "f" float     s = shortest decimal      c = <<>>                  *)
(*   t = "s" string    s = string token          c = <<>>   (stored by copy)*)
(*   t = "l" string    s = string token          c = <<>>   (kept by       *)
(*                     address: given as a string literal / const char* /  *)
(*                     JsonString(Linked); observable only through         *)
(*                     JsonString::isLinked(), field k of the projection)  *)
(*   t = "r" raw       s = bytes token           c = <<>>                  *)
(*   t = "a" array     s = ""                    c = elements              *)
(*   t = "o" object    s = ""                    c = members ("m" nodes)   *)
(*   t = "m" member    s = key token             c = << value >>           *)
(*   t = "x" unbound   (result of resolving a path that does not exist)    *)
(* Numbers travel as decimal strings because TLC integers are 32 bit.      *)
(* Objects are ordered member lists (TLA+ records would lose the order).   *)
(***************************************************************************)
EXTENDS Integers, Sequences, FiniteSets, TLC

Null      == [t |-> "n", s |-> "", c |-> <<>>]
Unbound   == [t |-> "x", s |-> "", c |-> <<>>]
BoolV(b)  == [t |-> "b", s |-> IF b THEN "true" ELSE "false", c |-> <<>>]
IntV(s)   == [t |-> "i", s |-> s, c |-> <<>>]
FltV(s)   == [t |-> "f", s |-> s, c |-> <<>>]
StrV(s)   == [t |-> "s", s |-> s, c |-> <<>>]
LnkV(s)   == [t |-> "l", s |-> s, c |-> <<>>]
RawV(s)   == [t |-> "r", s |-> s, c |-> <<>>]
Arr(es)   == [t |-> "a", s |-> "", c |-> es]
Obj(ms)   == [t |-> "o", s |-> "", c |-> ms]
Mem(k, v) == [t |-> "m", s |-> k, c |-> <<v>>]

IsScalar(v) == v.t \in {"n", "b", "i", "f", "s", "l", "r"}
IsStr(v)    == v.t \in {"s", "l"}
IsColl(v)   == v.t \in {"a", "o"}

Max2(a, b) == IF a > b THEN a ELSE b

\* index of the first member with key k, 0 when absent
FindKey(ms, k) ==
  LET hits == {j \in 1..Len(ms) : ms[j].s = k}
  IN  IF hits = {} THEN 0 ELSE CHOOSE j \in hits : \A j2 \in hits : j <= j2

RemoveAt(seq, j) == SubSeq(seq, 1, j - 1) \o SubSeq(seq, j + 1, Len(seq))

RECURSIVE Nesting(_)
Nesting(v) ==
  IF v.t = "a" THEN
     1 + (IF v.c = <<>> THEN 0
          ELSE LET ns == {Nesting(v.c[j]) : j \in 1..Len(v.c)}
               IN CHOOSE n \in ns : \A n2 \in ns : n >= n2)
  ELSE IF v.t = "o" THEN
     1 + (IF v.c = <<>> THEN 0
          ELSE LET ns == {Nesting(v.c[j].c[1]) : j \in 1..Len(v.c)}
               IN CHOOSE n \in ns : \A n2 \in ns : n >= n2)
  ELSE 0

Size(v) == IF IsColl(v) THEN Len(v.c) ELSE 0

\* number of value nodes (members count for one value each)
RECURSIVE Nodes(_)
RECURSIVE NodesSeq(_)
NodesSeq(seq) == IF seq = <<>> THEN 0 ELSE Nodes(Head(seq)) + NodesSeq(Tail(seq))
Nodes(v) ==
  IF v.t = "a" THEN 1 + NodesSeq(v.c)
  ELSE IF v.t = "o" THEN 1 + NodesSeq(v.c)
  ELSE IF v.t = "m" THEN Nodes(v.c[1])
  ELSE 1

\* as<bool>(): null -> false, booleans themselves, numbers # 0, everything else true
Truthy(v) ==
  CASE v.t = "n" -> FALSE
    [] v.t = "x" -> FALSE
    [] v.t = "b" -> v.s = "true"
    [] v.t \in {"i", "f"} -> ~(v.s \in {"0", "-0", "0.0"})
    [] OTHER -> TRUE

(***************************************************************************)
(* Path steps: [k |-> key, i |-> -1] selects a member, [k |-> "", i |-> n] *)
(* (n >= 0) selects an element.  Paths are sequences of steps.             *)
(***************************************************************************)
KeyStep(k) == [k |-> k, i |-> -1]
IdxStep(i) == [k |-> "", i |-> i]
IsKeyStep(st) == st.i < 0

Child(v, st) ==
  IF IsKeyStep(st)
  THEN IF v.t = "o" /\ FindKey(v.c, st.k) > 0
       THEN v.c[FindKey(v.c, st.k)].c[1] ELSE Unbound
  ELSE IF v.t = "a" /\ st.i < Len(v.c) THEN v.c[st.i + 1] ELSE Unbound

\* read resolution: never creates anything
RECURSIVE Get(_, _)
Get(v, p) ==
  IF p = <<>> THEN v
  ELSE IF v.t = "x" THEN Unbound
  ELSE Get(Child(v, Head(p)), Tail(p))

NullsN(n) == [j \in 1..n |-> Null]

(***************************************************************************)
(* Write resolution (MemberProxy/ElementProxy::getOrCreateData): a null    *)
(* value on the way becomes {} or [], a missing member is appended, an     *)
(* element index beyond the end pads the array with nulls; a value of the  *)
(* wrong kind makes the whole resolution fail without any side effect      *)
(* (result Unbound).                                                       *)
(***************************************************************************)
RECURSIVE Create(_, _)
Create(v, p) ==
  IF p = <<>> THEN v
  ELSE LET st == Head(p) IN
    IF IsKeyStep(st) THEN
      IF v.t \notin {"n", "o"} THEN Unbound
      ELSE LET ms == IF v.t = "n" THEN <<>> ELSE v.c
               j  == FindKey(ms, st.k)
           IN IF j > 0
              THEN LET sub == Create(ms[j].c[1], Tail(p))
                   IN IF sub.t = "x" THEN Unbound
                      ELSE Obj([ms EXCEPT ![j] = Mem(st.k, sub)])
              ELSE Obj(Append(ms, Mem(st.k, Create(Null, Tail(p)))))
    ELSE
      IF v.t \notin {"n", "a"} THEN Unbound
      ELSE LET es == IF v.t = "n" THEN <<>> ELSE v.c
           IN IF st.i < Len(es)
              THEN LET sub == Create(es[st.i + 1], Tail(p))
                   IN IF sub.t = "x" THEN Unbound
                      ELSE Arr([es EXCEPT ![st.i + 1] = sub])
              ELSE Arr(es \o NullsN(st.i - Len(es)) \o <<Create(Null, Tail(p))>>)

\* replace the value at an existing path
RECURSIVE Put(_, _, _)
Put(v, p, new) ==
  IF p = <<>> THEN new
  ELSE LET st == Head(p) IN
    IF IsKeyStep(st)
    THEN LET j == FindKey(v.c, st.k)
         IN Obj([v.c EXCEPT ![j] = Mem(st.k, Put(v.c[j].c[1], Tail(p), new))])
    ELSE Arr([v.c EXCEPT ![st.i + 1] = Put(v.c[st.i + 1], Tail(p), new)])

(***************************************************************************)
(* Compact JSON text of a value, for string tokens that need no escaping   *)
(* (the Document-level alphabets only use such tokens).                    *)
(***************************************************************************)
\* how the bytes of a string token appear inside a JSON string literal, for the
\* few tokens of the Document-level alphabets that are not plain text (the
\* harness reports the serialization with bytes outside printable ASCII as %XX)
SerTok(s) ==
  CASE s = "a%00b" -> "a\\u0000b"
    [] OTHER -> s

RECURSIVE Ser(_)
RECURSIVE SerSeq(_, _)
SerSeq(seq, first) ==
  IF seq = <<>> THEN ""
  ELSE (IF first THEN "" ELSE ",") \o Ser(Head(seq)) \o SerSeq(Tail(seq), FALSE)
Ser(v) ==
  CASE v.t \in {"n", "x"} -> "null"
    [] v.t \in {"b", "i", "f", "r"} -> v.s
    [] v.t \in {"s", "l"} -> "\"" \o SerTok(v.s) \o "\""
    [] v.t = "m" -> "\"" \o SerTok(v.s) \o "\":" \o Ser(v.c[1])
    [] v.t = "a" -> "[" \o SerSeq(v.c, TRUE) \o "]"
    [] v.t = "o" -> "{" \o SerSeq(v.c, TRUE) \o "}"

(***************************************************************************)
(* Slots a value needs in the pool besides its own slot: one per element,  *)
(* two per member (key + value), one extension slot per 64-bit integer or  *)
(* double.  X is the set of scalar values stored with an extension slot.     *)
(***************************************************************************)
RECURSIVE SlotsIn(_, _)
RECURSIVE SlotsInSeq(_, _)
SlotsInSeq(seq, X) ==
  IF seq = <<>> THEN 0 ELSE SlotsIn(Head(seq), X) + SlotsInSeq(Tail(seq), X)
SlotsIn(v, X) ==
  CASE v.t = "a" -> Len(v.c) + SlotsInSeq(v.c, X)
    [] v.t = "o" -> 2 * Len(v.c) + SlotsInSeq(v.c, X)
    [] v.t = "m" -> SlotsIn(v.c[1], X)
    [] OTHER -> IF v \in X THEN 1 ELSE 0

(***************************************************************************)
(* What the harness observes of a value through the public read API: the   *)
(* tree decorated, at every node, with size(), nesting(), as<bool>() and,   *)
(* for strings, the numeric conversions (which must not depend on how the  *)
(* string is stored).                                                      *)
(***************************************************************************)
\* as<long long>() "/" as<double>() of a string value: numeric-looking strings
\* convert like the number they spell, every other string gives 0 (the table
\* lists the numeric-looking tokens of the Document-level alphabets; the full
\* number grammar is Numbers.tla's business)
NumView(s) ==
  CASE s = "42"   -> "42/42"
    [] s = "1.5"  -> "1/1.5"
    [] s = "-3e2" -> "-300/-300"
    [] s = "7"    -> "7/7"
    [] s = "4"    -> "4/4"
    [] s = "1"    -> "1/1"
    [] s = "1."   -> "1/1"
    [] s = "-3"   -> "-3/-3"
    [] s = "-3e"  -> "-3/-3"
    [] OTHER      -> "0/0"

RECURSIVE Proj(_)
\* Both kinds of string are "s" for the read API; k is JsonString::isLinked(), the one
\* observation that tells them apart (on purpose: C14).
Proj(v) ==
  [t |-> IF v.t = "l" THEN "s" ELSE v.t, s |-> v.s,
   c |-> [j \in 1..Len(v.c) |-> Proj(v.c[j])],
   z |-> IF v.t = "m" THEN 0 ELSE Size(v),
   n |-> IF v.t = "m" THEN 0 ELSE Nesting(v),
   b |-> IF v.t = "m" THEN FALSE ELSE Truthy(v),
   q |-> IF IsStr(v) THEN NumView(v.s) ELSE "",
   k |-> v.t = "l"]

(***************************************************************************)
(* Derived read operations.  They add no state and no observation of their *)
(* own: each is a function of Proj(v), and the harness checks them as laws *)
(* at EVERY node it projects (harness/common/project.hpp: derivedReads):   *)
(*  - v | dflt (operator|) is OrElse below, one instance per default kind  *)
(*    (signed, unsigned, short, double, float, bool, const char*, string); *)
(*  - serializeJson / measureJson / ostream << of a SUB-value agree, and   *)
(*    the text of a container is Ser's recursion: brackets, members'       *)
(*    texts in order, "," between, key ":" value for members.              *)
(***************************************************************************)
KindOf(v) == CASE v.t \in {"s", "l"} -> "string"
               [] v.t = "i" -> "integer"
               [] v.t = "f" -> "float"
               [] v.t = "b" -> "bool"
               [] OTHER -> "other"
\* kinds: which default kinds the held value answers to (an integer answers to a
\* double default, a float does not answer to an integer default)
Answers(v, kinds) == KindOf(v) \in kinds
OrElse(v, kinds, dflt) == IF Answers(v, kinds) THEN v ELSE dflt

\* inverse of Proj on logged values (drops the decorations)
RECURSIVE Strip(_)
Strip(pv) == [t |-> IF pv.t = "s" /\ pv.k THEN "l" ELSE pv.t, s |-> pv.s,
              c |-> [j \in 1..Len(pv.c) |-> Strip(pv.c[j])]]

=============================================================================
