------------------------------ MODULE Document ------------------------------
(***************************************************************************)
(* The abstract API machine of ArduinoJson: what a user of JsonDocument,   *)
(* JsonVariant, JsonArray, JsonObject, MemberProxy and ElementProxy can    *)
(* observe, as a plain ordered-tree model.  No pools, no slots: those live  *)
(* in SlotPool.tla, which must refine this module.  Of string storage only *)
(* what JsonString::isLinked() reports is modelled (values "s" / "l"): a   *)
(* string given through a copying kind is stored by copy whatever the      *)
(* target held before, copies between values keep the storage, and         *)
(* deserialization always copies.                                          *)
(*                                                                         *)
(* State  docs : DocId -> [root : Value, ovf : BOOLEAN]                    *)
(*        refs : 1..NRefs -> [st, d, p]     the reference table            *)
(*   st = "unbound"  a default-constructed / failed JsonVariant            *)
(*   st = "live"     a JsonVariant designating the node at path p of doc d *)
(*   st = "dead"     the slot it pointed to was released or its pool may   *)
(*                   have moved: using it is outside the API contract and  *)
(*                   no action ever does                                   *)
(* One action per public call; the linearisation point is the call's       *)
(* return.  Step(S, op) is the single source of truth used by the          *)
(* exhaustive generator, by simulation and by trace validation.            *)
(***************************************************************************)
EXTENDS JsonValue

(***************************************************************************)
(* Operations.  All op records have the same fields:                       *)
(*   op   name                                                             *)
(*   tb   target base: "d" (a document) or "r" (a reference-table entry)   *)
(*   ti   document id or reference index                                   *)
(*   tp   proxy path applied on the base (operator[] chain)                *)
(*   v    value argument (Null when unused)                                *)
(*   sb, si, sp   source target (copy / bind), same encoding               *)
(*   r    reference-table entry that captures the returned reference (0 =  *)
(*        result discarded)                                                *)
(*   i    index argument, k key argument, x extra string (input text id)   *)
(***************************************************************************)
MkOp(op, tb, ti, tp, v, sb, si, sp, r, i, k, x) ==
  [op |-> op, tb |-> tb, ti |-> ti, tp |-> tp, v |-> v,
   sb |-> sb, si |-> si, sp |-> sp, r |-> r, i |-> i, k |-> k, x |-> x]

UnboundRef == [st |-> "unbound", d |-> 0, p |-> <<>>]
DeadRef    == [st |-> "dead", d |-> 0, p |-> <<>>]
LiveRef(d, p) == [st |-> "live", d |-> d, p |-> p]

IsStrictPrefix(p, q) == Len(p) < Len(q) /\ SubSeq(q, 1, Len(p)) = p
IsPrefixOf(p, q)     == Len(p) <= Len(q) /\ SubSeq(q, 1, Len(p)) = p
Overlap(p, q)        == IsPrefixOf(p, q) \/ IsPrefixOf(q, p)

----------------------------------------------------------------------------
(* Reference maintenance *)

\* the node at P is cleared and refilled: everything strictly below dies
KillBelow(refs, d, P) ==
  [r \in DOMAIN refs |->
     IF refs[r].st = "live" /\ refs[r].d = d /\ IsStrictPrefix(P, refs[r].p)
     THEN DeadRef ELSE refs[r]]

\* every slot of document d may be released or moved: only root refs survive
KillDoc(refs, d) ==
  [r \in DOMAIN refs |->
     IF refs[r].st = "live" /\ refs[r].d = d /\ refs[r].p # <<>>
     THEN DeadRef ELSE refs[r]]

\* element i of the array at P is removed: refs into it die, later siblings shift
ShiftAfterRemove(refs, d, P, i) ==
  [r \in DOMAIN refs |->
     LET rf == refs[r] IN
     IF rf.st = "live" /\ rf.d = d /\ IsStrictPrefix(P, rf.p)
     THEN LET st == rf.p[Len(P) + 1] IN
          IF IsKeyStep(st) THEN rf
          ELSE IF st.i = i THEN DeadRef
          ELSE IF st.i > i
               THEN LiveRef(d, [rf.p EXCEPT ![Len(P) + 1] = IdxStep(st.i - 1)])
               ELSE rf
     ELSE rf]

\* member k of the object at P is removed
KillMember(refs, d, P, k) ==
  [r \in DOMAIN refs |->
     LET rf == refs[r] IN
     IF rf.st = "live" /\ rf.d = d /\ IsStrictPrefix(P, rf.p)
        /\ IsKeyStep(rf.p[Len(P) + 1]) /\ rf.p[Len(P) + 1].k = k
     THEN DeadRef ELSE rf]

----------------------------------------------------------------------------
(* Target resolution *)

BaseBound(S, tb, ti) == tb = "d" \/ S.refs[ti].st = "live"
BaseDoc(S, tb, ti)   == IF tb = "d" THEN ti ELSE S.refs[ti].d
BasePath(S, tb, ti)  == IF tb = "d" THEN <<>> ELSE S.refs[ti].p

\* read resolution: [ok, d, P, v]
ReadRes(S, tb, ti, tp) ==
  IF ~BaseBound(S, tb, ti) THEN [ok |-> FALSE, d |-> 0, P |-> <<>>, v |-> Unbound]
  ELSE LET d == BaseDoc(S, tb, ti)
           P == BasePath(S, tb, ti) \o tp
           v == Get(S.docs[d].root, P)
       IN [ok |-> v.t # "x", d |-> d, P |-> P, v |-> v]

\* write resolution: [ok, d, P, root] where root has the path created
WriteRes(S, tb, ti, tp) ==
  IF ~BaseBound(S, tb, ti) THEN [ok |-> FALSE, d |-> 0, P |-> <<>>, root |-> Unbound]
  ELSE LET d == BaseDoc(S, tb, ti)
           P == BasePath(S, tb, ti) \o tp
           root == Create(S.docs[d].root, P)
       IN [ok |-> root.t # "x", d |-> d, P |-> P, root |-> root]

SetRoot(S, d, root) == [S.docs EXCEPT ![d].root = root]
WithRef(refs, r, rf) == IF r = 0 THEN refs ELSE [refs EXCEPT ![r] = rf]

Res(docs, refs, ret) == [docs |-> docs, refs |-> refs, ret |-> ret]

\* converters returning void report !overflowed(), provided the reference has a
\* resource manager at all (an unbound JsonVariant obtained from a failed lookup
\* has one, a default-constructed one has none: the bool returned when the
\* target cannot be resolved is therefore not determined by the abstract
\* state and is reported as "dontcare"); converters returning bool report the
\* store itself
VoidConv(v) == v.t \in {"n", "s", "l", "r"}

----------------------------------------------------------------------------
(* The operations *)

\* T.set(v) / T = v  for a scalar, string or raw value
DoSet(S, o) ==
  LET w == WriteRes(S, o.tb, o.ti, o.tp) IN
  IF ~w.ok
  THEN Res(S.docs, S.refs, IF VoidConv(o.v) THEN "dontcare" ELSE "false")
  ELSE Res(SetRoot(S, w.d, Put(w.root, w.P, o.v)), KillBelow(S.refs, w.d, w.P),
           IF VoidConv(o.v) /\ S.docs[w.d].ovf THEN "false" ELSE "true")

\* T.to<JsonArray>() / to<JsonObject>() / to<JsonVariant>() (= clear()); the
\* returned reference is captured in refs[o.r]
DoTo(S, o) ==
  LET w == WriteRes(S, o.tb, o.ti, o.tp) IN
  IF ~w.ok
  THEN Res(S.docs, WithRef(S.refs, o.r, UnboundRef), "unbound")
  ELSE Res(SetRoot(S, w.d, Put(w.root, w.P, o.v)),
           WithRef(KillBelow(S.refs, w.d, w.P), o.r, LiveRef(w.d, w.P)), "bound")

\* T.add(v)
DoAdd(S, o) ==
  LET w == WriteRes(S, o.tb, o.ti, o.tp) IN
  IF ~w.ok THEN Res(S.docs, S.refs, "false")
  ELSE LET node == Get(w.root, w.P) IN
       IF node.t \notin {"n", "a"} THEN Res(S.docs, S.refs, "false")
       ELSE Res(SetRoot(S, w.d, Put(w.root, w.P, Arr(node.c \o <<o.v>>))), S.refs,
                IF VoidConv(o.v) /\ S.docs[w.d].ovf THEN "false" ELSE "true")

\* T.add<JsonVariant>() / add<JsonArray>() / add<JsonObject>(), result captured
DoAddNew(S, o) ==
  LET w == WriteRes(S, o.tb, o.ti, o.tp) IN
  IF ~w.ok THEN Res(S.docs, WithRef(S.refs, o.r, UnboundRef), "unbound")
  ELSE LET node == Get(w.root, w.P) IN
       IF node.t \notin {"n", "a"}
       THEN Res(S.docs, WithRef(S.refs, o.r, UnboundRef), "unbound")
       ELSE Res(SetRoot(S, w.d, Put(w.root, w.P, Arr(node.c \o <<o.v>>))),
                WithRef(S.refs, o.r, LiveRef(w.d, w.P \o <<IdxStep(Len(node.c))>>)),
                "bound")

\* JsonVariant r = T;   (read resolution, nothing is created)
DoBind(S, o) ==
  LET q == ReadRes(S, o.tb, o.ti, o.tp) IN
  Res(S.docs, WithRef(S.refs, o.r, IF q.ok THEN LiveRef(q.d, q.P) ELSE UnboundRef),
      IF q.ok THEN "bound" ELSE "unbound")

\* T.remove(i)
DoRemoveIdx(S, o) ==
  LET q == ReadRes(S, o.tb, o.ti, o.tp) IN
  IF q.ok /\ q.v.t = "a" /\ o.i < Len(q.v.c)
  THEN Res(SetRoot(S, q.d, Put(S.docs[q.d].root, q.P, Arr(RemoveAt(q.v.c, o.i + 1)))),
           ShiftAfterRemove(S.refs, q.d, q.P, o.i), "void")
  ELSE Res(S.docs, S.refs, "void")

\* T.remove(k)
DoRemoveKey(S, o) ==
  LET q == ReadRes(S, o.tb, o.ti, o.tp) IN
  IF q.ok /\ q.v.t = "o" /\ FindKey(q.v.c, o.k) > 0
  THEN Res(SetRoot(S, q.d, Put(S.docs[q.d].root, q.P,
                               Obj(RemoveAt(q.v.c, FindKey(q.v.c, o.k))))),
           KillMember(S.refs, q.d, q.P, o.k), "void")
  ELSE Res(S.docs, S.refs, "void")

\* JsonVariantConst s = Src;  Dst.set(s);   (deep copy; the source is resolved
\* for read before the destination is resolved for write)
CopyAlias(S, o) ==
  LET q == ReadRes(S, o.sb, o.si, o.sp) IN
  q.ok /\ BaseBound(S, o.tb, o.ti) /\ q.d = BaseDoc(S, o.tb, o.ti)
       /\ Overlap(q.P, BasePath(S, o.tb, o.ti) \o o.tp)

DoCopy(S, o) ==
  LET q == ReadRes(S, o.sb, o.si, o.sp)
      w == WriteRes(S, o.tb, o.ti, o.tp) IN
  IF ~w.ok
  THEN Res(S.docs, S.refs, "dontcare")
  ELSE Res(SetRoot(S, w.d, Put(w.root, w.P, IF q.ok THEN q.v ELSE Null)),
           KillBelow(S.refs, w.d, w.P),
           IF S.docs[w.d].ovf THEN "false" ELSE "true")

\* Dst.set(view) where view is a sized string (string_view / JsonString) that points INTO the
\* document's own string storage: the first o.i bytes of the string currently at the source.
\* A copied string is independent of its source from the moment the call returns, whatever the
\* source was (C14), so the result is simply the prefix.
PlainTokens == {"a", "ab", "b", "hello", "42", "1.5", "-3e2", "x y", "true", "key", "null", "a b"}
PrefixSource(S, o) == LET q == ReadRes(S, o.sb, o.si, o.sp) IN q.ok /\ IsStr(q.v) /\ q.v.s \in PlainTokens /\ o.i <= Len(q.v.s)
DoSetPrefix(S, o) ==
  LET q == ReadRes(S, o.sb, o.si, o.sp)
      w == WriteRes(S, o.tb, o.ti, o.tp) IN
  IF ~w.ok THEN Res(S.docs, S.refs, "dontcare")
  ELSE Res(SetRoot(S, w.d, Put(w.root, w.P, StrV(SubSeq(q.v.s, 1, o.i)))), KillBelow(S.refs, w.d, w.P),
           IF S.docs[w.d].ovf THEN "false" ELSE "true")

\* doc.set(src) : clear() then copy (source in another document, or unbound)
DoDocSet(S, o) ==
  LET q == ReadRes(S, o.sb, o.si, o.sp) IN
  Res([S.docs EXCEPT ![o.ti] = [root |-> IF q.ok THEN q.v ELSE Null, ovf |-> FALSE]],
      KillDoc(S.refs, o.ti), "true")

\* doc.set(v) for a scalar, string or raw value: clear() then root.set(v)
DoDocSetV(S, o) ==
  Res([S.docs EXCEPT ![o.ti] = [root |-> o.v, ovf |-> FALSE]], KillDoc(S.refs, o.ti), "true")

\* doc.to<T>() : clear() then root.to<T>()
DoDocTo(S, o) ==
  Res([S.docs EXCEPT ![o.ti] = [root |-> o.v, ovf |-> FALSE]],
      WithRef(KillDoc(S.refs, o.ti), o.r, LiveRef(o.ti, <<>>)), "bound")

DoDocClear(S, o) ==
  Res([S.docs EXCEPT ![o.ti] = [root |-> Null, ovf |-> FALSE]], KillDoc(S.refs, o.ti), "void")

\* shrinkToFit(): no abstract effect, but pool memory may move
DoShrink(S, o) == Res(S.docs, KillDoc(S.refs, o.ti), "void")

\* d1 = d2  (copy-and-swap through a temporary built on d2's allocator)
DoDocAssign(S, o) ==
  Res([S.docs EXCEPT ![o.ti] = [root |-> S.docs[o.si].root, ovf |-> FALSE]],
      KillDoc(S.refs, o.ti), "void")

\* d1 = std::move(d2)
DoDocMove(S, o) ==
  Res([S.docs EXCEPT ![o.ti] = S.docs[o.si],
                     ![o.si] = [root |-> Null, ovf |-> FALSE]],
      KillDoc(KillDoc(S.refs, o.ti), o.si), "void")

DoDocSwap(S, o) ==
  Res([S.docs EXCEPT ![o.ti] = S.docs[o.si], ![o.si] = S.docs[o.ti]],
      KillDoc(KillDoc(S.refs, o.ti), o.si), "void")

\* deserializeJson/MsgPack(T, input): o.v is the value the input denotes and
\* o.x its text (both supplied by the reader modules)
DoDeser(S, o) ==
  LET w == WriteRes(S, o.tb, o.ti, o.tp) IN
  IF ~w.ok THEN Res(S.docs, S.refs, "NoMemory")
  ELSE IF o.tb = "d" /\ o.tp = <<>>
       THEN Res([S.docs EXCEPT ![w.d] = [root |-> o.v, ovf |-> FALSE]],
                KillDoc(S.refs, w.d), "Ok")
       ELSE Res(SetRoot(S, w.d, Put(w.root, w.P, o.v)), KillBelow(S.refs, w.d, w.P), "Ok")

Step(S, o) ==
  CASE o.op = "set"      -> DoSet(S, o)
    [] o.op = "to"       -> DoTo(S, o)
    [] o.op = "add"      -> DoAdd(S, o)
    [] o.op = "addnew"   -> DoAddNew(S, o)
    [] o.op = "bind"     -> DoBind(S, o)
    [] o.op = "rmidx"    -> DoRemoveIdx(S, o)
    [] o.op = "rmkey"    -> DoRemoveKey(S, o)
    [] o.op = "copy"     -> DoCopy(S, o)
    [] o.op = "setprefix" -> DoSetPrefix(S, o)
    [] o.op = "docset"   -> DoDocSet(S, o)
    [] o.op = "docsetv"  -> DoDocSetV(S, o)
    [] o.op = "docto"    -> DoDocTo(S, o)
    [] o.op = "docclear" -> DoDocClear(S, o)
    [] o.op = "shrink"   -> DoShrink(S, o)
    [] o.op = "assign"   -> DoDocAssign(S, o)
    [] o.op = "move"     -> DoDocMove(S, o)
    [] o.op = "swap"     -> DoDocSwap(S, o)
    [] o.op = "deser"    -> DoDeser(S, o)

(***************************************************************************)
(* Which operations are inside the quantifier in a given state: no use of  *)
(* a dead reference, no overlapping copy (that class is the known finding  *)
(* "alias-overlap", exercised separately).                                 *)
(***************************************************************************)
UsesRef(o, r) == (o.tb = "r" /\ o.ti = r) \/ (o.sb = "r" /\ o.si = r)

NoDeadRef(S, o) == \A r \in DOMAIN S.refs : UsesRef(o, r) => S.refs[r].st # "dead"

\* source and destination of a copy do not overlap
NoAlias(S, o) ==
  /\ o.op = "copy" => ~CopyAlias(S, o)
  /\ o.op = "setprefix" => (PrefixSource(S, o) /\ ~CopyAlias(S, o))
  /\ o.op = "docset" =>
        LET q == ReadRes(S, o.sb, o.si, o.sp) IN ~(q.ok /\ q.d = o.ti)

Legal(S, o) ==
  /\ NoDeadRef(S, o)
  /\ NoAlias(S, o)
  /\ o.op \in {"move", "swap"} => o.ti # o.si

\* the same without the overlap restriction: used only by the alias-overlap probe (known finding):
\* Step itself has value semantics, so it says what an overlapping copy OUGHT to give
LegalWithAlias(S, o) ==
  /\ NoDeadRef(S, o)
  /\ o.op \in {"move", "swap"} => o.ti # o.si

(***************************************************************************)
(* Observation: what the harness projects after every step.                *)
(***************************************************************************)
ObsRef(S, r) ==
  LET rf == S.refs[r] IN
  IF rf.st = "live"
  THEN [st |-> "live", v |-> Proj(Get(S.docs[rf.d].root, rf.p))]
  ELSE [st |-> rf.st, v |-> Proj(Unbound)]

Obs(S) ==
  [docs |-> [d \in DOMAIN S.docs |->
               [root |-> Proj(S.docs[d].root), ovf |-> S.docs[d].ovf,
                ser |-> Ser(S.docs[d].root)]],
   refs |-> [r \in DOMAIN S.refs |-> ObsRef(S, r)]]

(***************************************************************************)
(* Model-level properties of Step itself (checked by TLC in DocumentMC)    *)
(***************************************************************************)
\* a live reference always designates an existing node
RefsDesignate(S) ==
  \A r \in DOMAIN S.refs :
     S.refs[r].st = "live" => Get(S.docs[S.refs[r].d].root, S.refs[r].p).t # "x"

\* no object ever has two members with the same key (through the API)
RECURSIVE UniqueKeys(_)
UniqueKeys(v) ==
  /\ v.t = "o" => \A j1, j2 \in 1..Len(v.c) : v.c[j1].s = v.c[j2].s => j1 = j2
  /\ \A j \in 1..Len(v.c) : UniqueKeys(v.c[j])

=============================================================================
