// C20: distinct documents used from distinct threads without synchronisation.
// Each thread replays one spec-annotated stream (spec/DocumentFeed.tla: expected observation after every
// operation) on its OWN documents, all on the shared DefaultAllocator, while also reading one document
// that every thread shares through JsonVariantConst only (as copy source, as filter, serialized).
// Every per-thread execution must match the sequential expectation; built with ThreadSanitizer, any data
// race inside the library is reported and aborts.
//
// usage: threads_replay <seed> <stream1.ndjson> <stream2.ndjson> ...
#include <atomic>
#include <cstdio>
#include <fstream>
#include <thread>

#include "common/docworld.hpp"

static std::atomic<long> g_bad{0}, g_ops{0}, g_shared{0};

static void worker(int tid, const char* path, unsigned long long seed, const JsonDocument* shared, std::string sharedJson,
                   std::string filteredExpect) {
  std::ifstream in(path);
  std::string line;
  std::unique_ptr<dw::World> w;
  dw::Kinds ks(seed + (unsigned long long)tid);
  bool poisoned = false;
  long idx = 0;
  while (std::getline(in, line)) {
    if (line.empty()) continue;
    mj::Value ev = mj::parse(line);
    if (ev.str("e") == "reset") {
      w.reset(new dw::World((int)ev.num("nd"), (int)ev.num("nr"), true));
      ks = dw::Kinds(seed * 1000003ull + (unsigned long long)(idx * 131 + tid));
      poisoned = false;
    } else if (!poisoned && w) {
      const mj::Value& obs = ev.at("obs");
      std::vector<std::string> status;
      for (auto& r : obs.at("refs").a) status.push_back(r.str("st"));
      std::string ret = dw::exec(*w, dw::parseOp(ev.at("op")), ks);
      g_ops++;
      bool ok = (ret == "skip" || ev.str("ret") == "dontcare" || ret == ev.str("ret")) && mj::equal(dw::observe(*w, status), obs);
      if (!ok) {
        poisoned = true;
        if (g_bad++ < 5) printf("MISMATCH thread=%d idx=%ld\n", tid, idx);
      }
      // the shared document: const access only
      if (idx % 7 == tid % 7) {
        JsonDocument mine;
        JsonVariantConst sv = shared->as<JsonVariantConst>();
        mine.set(sv);
        std::string s;
        serializeJson(mine, s);
        std::string s2;
        serializeJson(sv, s2);
        JsonDocument filtered;
        deserializeJson(filtered, sharedJson, DeserializationOption::Filter(sv["f"]));
        std::string s3;
        serializeJson(filtered, s3);
        bool cmp = sv == mine.as<JsonVariantConst>() && sv["list"][1] == 2 && sv.size() == shared->size();
        g_shared++;
        if (s != sharedJson || s2 != sharedJson || s3 != filteredExpect || !cmp) {
          if (g_bad++ < 5) printf("MISMATCH thread=%d shared document read differs\n", tid);
        }
      }
      if (idx % 13 == 0) std::this_thread::yield();
    }
    idx++;
  }
}

int main(int argc, char** argv) {
  if (argc < 3) return 2;
  unsigned long long seed = strtoull(argv[1], nullptr, 10);
  JsonDocument shared;
  deserializeJson(shared, "{\"list\":[1,2,3.5,\"x\"],\"name\":\"shared\",\"big\":1099511627776,\"f\":{\"list\":[true],\"name\":true}}");
  std::string sharedJson;
  serializeJson(shared, sharedJson);
  JsonDocument fe;
  deserializeJson(fe, sharedJson, DeserializationOption::Filter(shared.as<JsonVariantConst>()["f"]));
  std::string filteredExpect;
  serializeJson(fe, filteredExpect);
  std::vector<std::thread> ts;
  for (int i = 2; i < argc; i++)
    ts.emplace_back(worker, i - 2, argv[i], seed, &shared, sharedJson, filteredExpect);
  for (auto& t : ts) t.join();
  std::string after;
  serializeJson(shared, after);
  if (after != sharedJson) { printf("MISMATCH shared document changed\n"); g_bad++; }
  printf("SUMMARY threads=%d ops=%ld shared_reads=%ld mismatches=%ld\n", argc - 2, g_ops.load(), g_shared.load(), g_bad.load());
  return g_bad ? 1 : 0;
}
