// C20: distinct documents used from distinct threads without synchronisation.
// Each thread replays one spec-annotated stream (spec/DocumentFeed.tla: expected observation after every
// operation) on its OWN documents, all on the shared DefaultAllocator, while also reading one document
// that every thread shares through JsonVariantConst only (as copy source, as filter, serialized).
// Every per-thread execution must match the sequential expectation; built with ThreadSanitizer, any data
// race inside the library is reported and aborts.
//
// With --cases <file>: every thread also runs its share of reader cases computed by TLC from JsonReader.tla /
// MsgPack.tla (input, expected code and value): deserialize through a string, a stream or a custom reader,
// compare with the specification, serialize to JSON and MessagePack and read both back.
//
// usage: threads_replay <seed> [--cases <cases.ndjson>] <stream1.ndjson> <stream2.ndjson> ...
#include <atomic>
#include <cstdio>
#include <fstream>
#include <thread>

#include <sstream>

#include "common/docworld.hpp"
#include "common/bytevalue.hpp"

static std::atomic<long> g_bad{0}, g_ops{0}, g_shared{0};

struct ByteReader {
  const std::string* d;
  size_t pos = 0;
  int read() { return pos < d->size() ? (unsigned char)(*d)[pos++] : -1; }
  size_t readBytes(char* b, size_t n) {
    size_t k = 0;
    while (k < n && pos < d->size()) b[k++] = (*d)[pos++];
    return k;
  }
};

static std::vector<mj::Value> g_cases;
static std::atomic<long> g_caseRuns{0};

static const char* codeName(DeserializationError e) {
  switch (e.code()) {
    case DeserializationError::Ok: return "Ok";
    case DeserializationError::EmptyInput: return "EmptyInput";
    case DeserializationError::IncompleteInput: return "IncompleteInput";
    case DeserializationError::InvalidInput: return "InvalidInput";
    case DeserializationError::NoMemory: return "NoMemory";
    case DeserializationError::TooDeep: return "TooDeep";
  }
  return "?";
}

// one reader case on this thread's own documents; returns a description of the disagreement or ""
static std::string runCase(const mj::Value& c, long idx) {
  bool mp = c.has("fmt") && c.str("fmt") == "msgpack";
  std::string bytes;
  for (auto& x : c.at("inp").a) bytes += char((unsigned char)x.i);
  if (!mp && bytes.find('\0') != std::string::npos) return "";
  using namespace DeserializationOption;
  NestingLimit lim((uint8_t)c.num("lim"));
  JsonDocument doc;
  DeserializationError e;
  int kind = (int)(idx % 3);
  if (kind == 0) e = mp ? deserializeMsgPack(doc, bytes, lim) : deserializeJson(doc, bytes, lim);
  else if (kind == 1) { std::istringstream is(bytes); e = mp ? deserializeMsgPack(doc, is, lim) : deserializeJson(doc, is, lim); }
  else { ByteReader r{&bytes}; e = mp ? deserializeMsgPack(doc, r, lim) : deserializeJson(doc, r, lim); }
  if (c.str("code") != codeName(e)) return std::string("code expected=") + c.str("code") + " got=" + codeName(e);
  if (e) return "";
  bool weird = c.has("weird") && c.boolean("weird");
  std::string d = bv::compare(doc.as<JsonVariantConst>(), c.at("v"), false, false, weird);
  if (!d.empty()) return "value " + d;
  // write and read back, both formats (raw MessagePack values have no JSON form)
  std::string m;
  serializeMsgPack(doc, m);
  JsonDocument back;
  if (deserializeMsgPack(back, m, NestingLimit(255)) != DeserializationError::Ok) return "MessagePack output not readable";
  // (integral floating-point values come back as integers, narrowed doubles as floats: the bytes are a fixed point)
  std::string m2;
  serializeMsgPack(back, m2);
  if (m2 != m) return "MessagePack round trip is not a fixed point";
  if (!mp) {
    std::string j, pj;
    serializeJson(doc, j);
    serializeJsonPretty(doc, pj);
    JsonDocument b2, b3;
    if (deserializeJson(b2, j, NestingLimit(255)) != DeserializationError::Ok ||
        deserializeJson(b3, pj, NestingLimit(255)) != DeserializationError::Ok)
      return "JSON output not readable";
    std::string j2, j3;
    serializeJson(b2, j2);
    serializeJson(b3, j3);
    if (j2 != j || j3 != j) return "JSON round trip is not a fixed point";
  }
  return "";
}

static void worker(int tid, int nthreads, const char* path, unsigned long long seed, const JsonDocument* shared, std::string sharedJson,
                   std::string filteredExpect) {
  long nextCase = tid;
  std::ifstream in(path);
  std::string line;
  std::unique_ptr<dw::World> w;
  dw::Kinds ks(seed + (unsigned long long)tid);
  bool poisoned = false;
  long idx = 0;
  while (std::getline(in, line)) {
    if (line.empty()) continue;
    mj::Value ev = mj::parse(line);
    if (ev.str("e") == "reset") {
      w.reset(new dw::World((int)ev.num("nd"), (int)ev.num("nr"), true));
      ks = dw::Kinds(seed * 1000003ull + (unsigned long long)(idx * 131 + tid));
      poisoned = false;
    } else if (!poisoned && w) {
      const mj::Value& obs = ev.at("obs");
      std::vector<std::string> status;
      for (auto& r : obs.at("refs").a) status.push_back(r.str("st"));
      std::string ret = dw::exec(*w, dw::parseOp(ev.at("op")), ks);
      g_ops++;
      bool ok = (ret == "skip" || ev.str("ret") == "dontcare" || ret == ev.str("ret")) && mj::equal(dw::observe(*w, status), obs);
      if (!ok) {
        poisoned = true;
        if (g_bad++ < 5) printf("MISMATCH thread=%d idx=%ld\n", tid, idx);
      }
      // the shared document: const access only
      if (idx % 7 == tid % 7) {
        JsonDocument mine;
        JsonVariantConst sv = shared->as<JsonVariantConst>();
        mine.set(sv);
        std::string s;
        serializeJson(mine, s);
        std::string s2;
        serializeJson(sv, s2);
        JsonDocument filtered;
        deserializeJson(filtered, sharedJson, DeserializationOption::Filter(sv["f"]));
        std::string s3;
        serializeJson(filtered, s3);
        size_t manyN = sv["many"].size();
        long long sum = 0;
        for (size_t k = (size_t)tid; k < manyN; k += 37) sum += sv["many"][k].as<long long>() % 1000;
        (void)sum;
        bool cmp = sv == mine.as<JsonVariantConst>() && sv["list"][1] == 2 && sv.size() == shared->size() &&
                   manyN == (size_t)(3 * ARDUINOJSON_POOL_CAPACITY + 7) && sv["many"][manyN - 1] == (int)(manyN - 1);
        g_shared++;
        if (s != sharedJson || s2 != sharedJson || s3 != filteredExpect || !cmp) {
          if (g_bad++ < 5) printf("MISMATCH thread=%d shared document read differs\n", tid);
        }
      }
      // this thread's share of the reader cases, interleaved with the document operations
      for (int rep = 0; rep < 2 && nextCase < (long)g_cases.size(); rep++, nextCase += nthreads) {
        std::string why = runCase(g_cases[(size_t)nextCase], nextCase);
        g_caseRuns++;
        if (!why.empty() && g_bad++ < 5) printf("MISMATCH thread=%d case=%ld %s\n", tid, nextCase, why.c_str());
      }
      if (idx % 13 == 0) std::this_thread::yield();
    }
    idx++;
  }
  for (; nextCase < (long)g_cases.size(); nextCase += nthreads) {
    std::string why = runCase(g_cases[(size_t)nextCase], nextCase);
    g_caseRuns++;
    if (!why.empty() && g_bad++ < 5) printf("MISMATCH thread=%d case=%ld %s\n", tid, nextCase, why.c_str());
  }
}

int main(int argc, char** argv) {
  if (argc < 3) return 2;
  unsigned long long seed = strtoull(argv[1], nullptr, 10);
  JsonDocument shared;
  deserializeJson(shared, "{\"list\":[1,2,3.5,\"x\"],\"name\":\"shared\",\"big\":1099511627776,\"f\":{\"list\":[true],\"name\":true}}");
  // the shared document spans several pools (more slots than ARDUINOJSON_POOL_CAPACITY): readers walk across them
  {
    JsonArray many = shared["many"].to<JsonArray>();
    for (int i = 0; i < 3 * ARDUINOJSON_POOL_CAPACITY + 7; i++) {
      if (i % 5 == 0) many.add(std::string("s") + std::to_string(i % 11));
      else if (i % 5 == 1) many.add(1099511627776LL + i);
      else many.add(i);
    }
  }
  std::string sharedJson;
  serializeJson(shared, sharedJson);
  JsonDocument fe;
  deserializeJson(fe, sharedJson, DeserializationOption::Filter(shared.as<JsonVariantConst>()["f"]));
  std::string filteredExpect;
  serializeJson(fe, filteredExpect);
  int first = 2;
  if (argc > 4 && std::string(argv[2]) == "--cases") {
    std::ifstream cf(argv[3]);
    std::string cl;
    while (std::getline(cf, cl)) if (!cl.empty()) g_cases.push_back(mj::parse(cl));
    first = 4;
  }
  std::vector<std::thread> ts;
  for (int i = first; i < argc; i++)
    ts.emplace_back(worker, i - first, argc - first, argv[i], seed, &shared, sharedJson, filteredExpect);
  for (auto& t : ts) t.join();
  std::string after;
  serializeJson(shared, after);
  if (after != sharedJson) { printf("MISMATCH shared document changed\n"); g_bad++; }
  printf("SUMMARY threads=%d ops=%ld shared_reads=%ld cases=%ld mismatches=%ld\n", argc - first, g_ops.load(), g_shared.load(),
         g_caseRuns.load(), g_bad.load());
  return g_bad ? 1 : 0;
}
