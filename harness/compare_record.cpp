// C18: outcomes of the six comparison operators for every ordered pair of the value table
// (variant * variant across two documents and inside one, variant * C++ scalar / string in both orders).
// usage: compare_record <table.json> <out.ndjson>
#include <cstdio>
#include <fstream>
#include <set>
#include <sstream>

#include "common/verif_allocator.hpp"
#include "common/minijson.hpp"

using namespace ArduinoJson;

static const char* intern(const std::string& s) {
  static std::set<std::string> pool;
  return pool.insert(s).first->c_str();
}
static std::string bytesOf(const mj::Value& a) {
  std::string s;
  for (auto& x : a.a) s += char((unsigned char)x.i);
  return s;
}

static void build(const mj::Value& T, size_t idx /*1-based*/, JsonVariant dst) {
  const mj::Value& v = T.a[idx - 1];
  const std::string& kind = v.str("kind");
  const std::string& store = v.str("store");
  const std::string& lit = v.str("lit");
  if (kind == "null" || kind == "unbound") dst.set(nullptr);
  else if (kind == "bool") dst.set(v.num("ex") == 1);
  else if (kind == "int") {
    if (store == "u") dst.set((unsigned long long)strtoull(lit.c_str(), nullptr, 10));
    else dst.set((long long)strtoll(lit.c_str(), nullptr, 10));
  } else if (kind == "flt") {
    if (store == "f") dst.set((float)strtod(lit.c_str(), nullptr));
    else dst.set(strtod(lit.c_str(), nullptr));
  } else if (kind == "str") {
    std::string b = bytesOf(v.at("b"));
    if (store == "linked") dst.set(intern(b)); else dst.set(b);
  } else if (kind == "raw") dst.set(serialized(bytesOf(v.at("b"))));
  else if (kind == "arr") {
    JsonArray a = dst.to<JsonArray>();
    for (auto& c : v.at("c").a) build(T, (size_t)c.i, a.add<JsonVariant>());
  } else if (kind == "obj") {
    JsonObject o = dst.to<JsonObject>();
    for (size_t k = 0; k < v.at("c").a.size(); k++) {
      JsonVariant m = o[bytesOf(v.at("keys").a[k])].to<JsonVariant>();
      build(T, (size_t)v.at("c").a[k].i, m);
    }
  }
}

template <class A, class B>
static void row(std::ofstream& out, size_t i, size_t j, const char* how, const A& a, const B& b) {
  out << "{\"e\":\"pair\",\"i\":" << i << ",\"j\":" << j << ",\"how\":\"" << how << "\""
      << ",\"eq\":" << ((a == b) ? "true" : "false") << ",\"ne\":" << ((a != b) ? "true" : "false")
      << ",\"lt\":" << ((a < b) ? "true" : "false") << ",\"le\":" << ((a <= b) ? "true" : "false")
      << ",\"gt\":" << ((a > b) ? "true" : "false") << ",\"ge\":" << ((a >= b) ? "true" : "false")
      << ",\"meq\":" << ((b == a) ? "true" : "false") << ",\"mlt\":" << ((b < a) ? "true" : "false")
      << ",\"mgt\":" << ((b > a) ? "true" : "false") << ",\"mne\":" << ((b != a) ? "true" : "false")
      << ",\"mle\":" << ((b <= a) ? "true" : "false") << ",\"mge\":" << ((b >= a) ? "true" : "false") << "}\n";
}

int main(int argc, char** argv) {
  if (argc < 3) return 2;
  std::ifstream in(argv[1]);
  std::stringstream ss;
  ss << in.rdbuf();
  mj::Value T = mj::parse(ss.str());
  std::ofstream out(argv[2]);
  out << "{\"e\":\"table\",\"vals\":" << mj::dump(T) << "}\n";
  size_t n = T.a.size();
  JsonDocument A, B;
  for (size_t i = 1; i <= n; i++) {
    build(T, i, A.add<JsonVariant>());
    build(T, i, B.add<JsonVariant>());
  }
  auto get = [&](JsonDocument& d, size_t i) -> JsonVariantConst {
    if (T.a[i - 1].str("kind") == "unbound") return JsonVariantConst();
    return d[i - 1];
  };
  long rows = 0;
  for (size_t i = 1; i <= n; i++)
    for (size_t j = 1; j <= n; j++) {
      row(out, i, j, "vv", get(A, i), get(B, j));
      row(out, i, j, "vv1", get(A, i), get(A, j));
      rows += 2;
    }
  // variant * C++ operand
  for (size_t i = 1; i <= n; i++)
    for (size_t j = 1; j <= n; j++) {
      const mj::Value& s = T.a[j - 1];
      const std::string& kind = s.str("kind");
      const std::string& lit = s.str("lit");
      JsonVariantConst a = get(A, i);
      if (kind == "bool") { row(out, i, j, "vs", a, s.num("ex") == 1); rows++; }
      else if (kind == "int") {
        if (s.str("store") == "u") row(out, i, j, "vs", a, (unsigned long long)strtoull(lit.c_str(), nullptr, 10));
        else {
          long long x = strtoll(lit.c_str(), nullptr, 10);
          row(out, i, j, "vs", a, x);
          if (x >= -2147483647 - 1 && x <= 2147483647) { row(out, i, j, "vs", a, (int)x); rows++; }
          if (x >= 0 && x <= 4294967295LL) { row(out, i, j, "vs", a, (unsigned int)x); rows++; }
        }
        rows++;
      } else if (kind == "flt") {
        if (s.str("store") == "f") row(out, i, j, "vs", a, (float)strtod(lit.c_str(), nullptr));
        else row(out, i, j, "vs", a, strtod(lit.c_str(), nullptr));
        rows++;
      } else if (kind == "str") {
        std::string b = bytesOf(s.at("b"));
        row(out, i, j, "vs", a, b);
        rows++;
        if (b.find('\0') == std::string::npos) { row(out, i, j, "vs", a, b.c_str()); rows++; }
        row(out, i, j, "vs", a, JsonString(b.data(), b.size()));
        rows++;
      }
    }
  printf("SUMMARY rows=%ld values=%zu\n", rows, n);
  return 0;
}
