// C17 (escaping direction): every byte and every pair of bytes as string content and as key.
// usage: escape_record <out.ndjson> <first a> <last a> <mode>   mode: "all" pairs (a, 0..255) | "edge" pairs
#include <cstdio>
#include <fstream>
#include <string>

#include "common/verif_allocator.hpp"

using namespace ArduinoJson;

static void emit(std::ofstream& out, int a, int b) {
  std::string s(1, char(a));
  if (b >= 0) s += char(b);
  JsonDocument doc;
  doc.set(s);
  std::string json;
  serializeJson(doc, json);
  JsonDocument back;
  DeserializationError e = deserializeJson(back, json);
  JsonString r = back.as<JsonString>();
  std::string got = (e == DeserializationError::Ok && r.c_str()) ? std::string(r.c_str(), r.size()) : std::string("\x01?");
  // as a key
  JsonDocument kd;
  kd[s] = 1;
  std::string kjson;
  serializeJson(kd, kjson);
  JsonDocument kback;
  bool keyok = deserializeJson(kback, kjson) == DeserializationError::Ok && kback.size() == 1 && kback[s] == 1;
  for (JsonPairConst kv : kback.as<JsonObjectConst>())
    keyok = keyok && std::string(kv.key().c_str(), kv.key().size()) == s;
  out << "{\"a\":" << a << ",\"b\":" << b << ",\"json\":[";
  for (size_t i = 0; i < json.size(); i++) out << (i ? "," : "") << (int)(unsigned char)json[i];
  out << "],\"back\":[";
  for (size_t i = 0; i < got.size(); i++) out << (i ? "," : "") << (int)(unsigned char)got[i];
  out << "],\"key\":" << (keyok ? "true" : "false") << "}\n";
}

int main(int argc, char** argv) {
  if (argc < 5) return 2;
  std::ofstream out(argv[1]);
  int a0 = atoi(argv[2]), a1 = atoi(argv[3]);
  bool all = std::string(argv[4]) == "all";
  static const int edge[] = {0, 1, 8, 9, 10, 12, 13, 31, 32, 34, 39, 47, 92, 117, 127, 128, 194, 255};
  long rows = 0;
  for (int a = a0; a <= a1; a++) {
    emit(out, a, -1);
    rows++;
    if (all) for (int b = 0; b < 256; b++) { emit(out, a, b); rows++; }
    else for (int b : edge) { emit(out, a, b); emit(out, b, a); rows += 2; }
  }
  printf("SUMMARY rows=%ld\n", rows);
  return 0;
}
