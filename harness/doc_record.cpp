// I->S conformance: drives the real library with a seeded random generator over
// the operation vocabulary of spec/Document.tla (larger alphabets, long
// histories) and records one ndjson event per public call, to be validated by
// TLC against spec/DocumentTrace.tla.
//
// usage: doc_record <out.ndjson> <seed> <events> [ndocs nrefs]
//
// The generator must not use a reference whose slot may have been released.
// It does not consult any model: it uses a conservative rule (any mutation of a
// document invalidates every non-root reference into it) and logs "skip" for
// references it will not touch.  TLC checks that every reference it does touch
// is live in the model.
#include <cstdio>
#include <fstream>
#include <signal.h>
#include <unistd.h>

#include "common/docworld.hpp"
#include "common/inspector.hpp"

using namespace dw;

static volatile long g_line = -1;
static void onCrash(const char* what) {
  char buf[128];
  int n = snprintf(buf, sizeof buf, "\nCRASH idx=%ld what=%s\n", g_line, what);
  if (write(1, buf, (size_t)n)) {}
}
extern "C" void __asan_on_error() { onCrash("asan"); }
static void onSignal(int sig) { onCrash(sig == SIGSEGV ? "sigsegv" : sig == SIGALRM ? "timeout" : "sigabrt"); _exit(3); }

struct Rng {
  unsigned long long s;
  explicit Rng(unsigned long long seed) : s(seed * 0x9E3779B97F4A7C15ull + 0xABCDEF) {}
  unsigned next(unsigned n) { s ^= s << 13; s ^= s >> 7; s ^= s << 17; return unsigned((s >> 13) % n); }
  bool coin(unsigned pct) { return next(100) < pct; }
};

static const char* KEYS[] = {"a", "b", "c", "key", "", "a b"};
static const char* STRS[] = {"a", "b", "hello", "", "x y", "42", "1.5", "true", "null", "-3e2"};
static const char* INTS[] = {"0", "1", "-1", "42", "127", "128", "255", "256", "-128", "-129", "32767", "32768",
                             "65535", "65536", "2147483647", "2147483648", "-2147483648", "-2147483649",
                             "4294967295", "4294967296", "9223372036854775807", "9223372036854775808",
                             "-9223372036854775808", "18446744073709551615", "1099511627776"};
static const char* FLTS[] = {"1.5", "-0.25", "3.25", "0.5", "0.1", "-2.5"};
static const char* RAWS[] = {"[7]", "{}", "1e5", "x"};

static mj::Value mkNode(const char* t, const std::string& s) {
  mj::Value v = mj::Value::mkObj();
  v.set("t", mj::Value::mkStr(t));
  v.set("s", mj::Value::mkStr(s));
  v.set("c", mj::Value::mkArr());
  return v;
}

static mj::Value randScalar(Rng& g) {
  switch (g.next(7)) {
    case 0: return mkNode("n", "");
    case 1: return mkNode("b", g.coin(50) ? "true" : "false");
    case 2: return mkNode("i", INTS[g.next(sizeof INTS / sizeof *INTS)]);
    case 3: return mkNode("f", FLTS[g.next(sizeof FLTS / sizeof *FLTS)]);
    case 4: return mkNode("r", RAWS[g.next(sizeof RAWS / sizeof *RAWS)]);
    default: return mkNode(g.coin(40) ? "l" : "s", STRS[g.next(sizeof STRS / sizeof *STRS)]);  // "l": kept by address
  }
}

// random model value and its JSON text (written by this harness, not by the library)
static mj::Value randJson(Rng& g, int depth, std::string& text) {
  unsigned k = g.next(depth >= 3 ? 5 : 8);
  if (k == 5 || k == 6) {  // array
    mj::Value v = mkNode("a", "");
    text += '[';
    unsigned n = g.next(4);
    for (unsigned j = 0; j < n; j++) {
      if (j) text += g.coin(30) ? " , " : ",";
      v.o[2].second.a.push_back(randJson(g, depth + 1, text));
    }
    text += ']';
    return v;
  }
  if (k == 7) {  // object with distinct keys
    mj::Value v = mkNode("o", "");
    text += '{';
    unsigned n = g.next(4), start = g.next(6);
    for (unsigned j = 0; j < n; j++) {
      const char* key = KEYS[(start + j) % 6];
      if (j) text += ",";
      if (g.coin(20)) text += " ";
      text += '"'; text += key; text += "\":";
      if (g.coin(20)) text += "\n ";
      mj::Value m = mkNode("m", key);
      m.o[2].second.a.push_back(randJson(g, depth + 1, text));
      v.o[2].second.a.push_back(m);
    }
    text += '}';
    return v;
  }
  switch (k) {
    case 0: text += "null"; return mkNode("n", "");
    case 1: { bool b = g.coin(50); text += b ? "true" : "false"; return mkNode("b", b ? "true" : "false"); }
    case 2: { const char* s = INTS[g.next(sizeof INTS / sizeof *INTS)]; text += s; return mkNode("i", s); }
    case 3: { const char* s = FLTS[g.next(4)]; text += s; return mkNode("f", s); }
    default: { const char* s = STRS[g.next(sizeof STRS / sizeof *STRS)]; text += '"'; text += s; text += '"'; return mkNode("s", s); }
  }
}

static mj::Value pathJson(const Path& p) {
  mj::Value a = mj::Value::mkArr();
  for (auto& st : p) {
    mj::Value e = mj::Value::mkObj();
    e.set("k", mj::Value::mkStr(st.isKey ? vproj::tokEncode(st.key) : ""));
    e.set("i", mj::Value::mkInt(st.isKey ? -1 : (long long)st.idx));
    a.a.push_back(e);
  }
  return a;
}

static mj::Value opJson(const Op& o) {
  mj::Value j = mj::Value::mkObj();
  j.set("op", mj::Value::mkStr(o.op));
  j.set("tb", mj::Value::mkStr(o.tb));
  j.set("ti", mj::Value::mkInt(o.ti));
  j.set("tp", pathJson(o.tp));
  j.set("v", o.v);
  j.set("sb", mj::Value::mkStr(o.sb));
  j.set("si", mj::Value::mkInt(o.si));
  j.set("sp", pathJson(o.sp));
  j.set("r", mj::Value::mkInt(o.r));
  j.set("i", mj::Value::mkInt(o.i));
  j.set("k", mj::Value::mkStr(vproj::tokEncode(o.k)));
  j.set("x", mj::Value::mkStr(o.x));
  return j;
}

struct Gen {
  Rng g;
  int nd, nr;
  // conservative liveness: usable[r]; refDoc[r] (0 for an unbound reference); isRoot[r]
  std::vector<bool> usable, isRoot;
  std::vector<int> refDoc;
  Gen(unsigned long long seed, int nd_, int nr_) : g(seed), nd(nd_), nr(nr_), usable(nr_, true), isRoot(nr_, false), refDoc(nr_, 0) {}

  PStep step() {
    PStep st;
    st.isKey = g.coin(60);
    st.idx = 0;
    if (st.isKey) st.key = KEYS[g.next(6)];
    else st.idx = g.next(4);
    return st;
  }
  Path path(unsigned maxLen) {
    Path p;
    unsigned n = g.next(maxLen + 1);
    for (unsigned j = 0; j < n; j++) p.push_back(step());
    return p;
  }
  void base(std::string& b, int& i) {
    std::vector<int> ok;
    for (int r = 0; r < nr; r++) if (usable[r]) ok.push_back(r + 1);
    if (!ok.empty() && g.coin(35)) { b = "r"; i = ok[g.next((unsigned)ok.size())]; }
    else { b = "d"; i = 1 + (int)g.next((unsigned)nd); }
  }
  int docOf(const std::string& b, int i) { return b == "d" ? i : refDoc[i - 1]; }

  Op make() {
    Op o;
    o.v = mkNode("n", "");
    static const char* names[] = {"set", "set", "set", "to", "to", "add", "add", "add", "addnew", "addnew", "bind",
                                  "bind", "rmidx", "rmkey", "copy", "copy", "docset", "docsetv", "docto", "docclear",
                                  "shrink", "assign", "move", "swap", "deser", "deser"};
    o.op = names[g.next(sizeof names / sizeof *names)];
    base(o.tb, o.ti);
    o.tp = path(2);
    if (o.op == "set" || o.op == "add") o.v = randScalar(g);
    else if (o.op == "to" || o.op == "addnew" || o.op == "docto") {
      unsigned k = g.next(3);
      o.v = mkNode(k == 0 ? "n" : k == 1 ? "a" : "o", "");
      o.r = (int)g.next((unsigned)nr + 1);
    } else if (o.op == "bind") o.r = 1 + (int)g.next((unsigned)nr);
    else if (o.op == "rmidx") o.i = g.next(4);
    else if (o.op == "rmkey") o.k = KEYS[g.next(6)];
    else if (o.op == "copy" || o.op == "docset") {
      base(o.sb, o.si);
      o.sp = path(2);
      if (o.op == "docset") { o.tb = "d"; o.ti = 1 + (int)g.next((unsigned)nd); o.tp.clear(); }
      int dd = docOf(o.tb, o.ti), sd = docOf(o.sb, o.si);
      bool disjointSameDoc = o.op == "copy" && o.tb == "d" && o.sb == "d" && !o.tp.empty() && !o.sp.empty() &&
                             o.tp[0].isKey && o.sp[0].isKey && o.tp[0].key != o.sp[0].key;
      if (dd == sd && dd != 0 && !disjointSameDoc) {
        // overlapping or possibly overlapping: redirect the source to another document
        o.sb = "d";
        o.si = (dd % nd) + 1;
        if (o.si == dd) { o.op = "bind"; o.r = 1; o.sb = ""; o.si = 0; o.sp.clear(); }
      }
    } else if (o.op == "docsetv") { o.tb = "d"; o.ti = 1 + (int)g.next((unsigned)nd); o.tp.clear(); o.v = randScalar(g); }
    else if (o.op == "docclear" || o.op == "shrink") { o.tb = "d"; o.ti = 1 + (int)g.next((unsigned)nd); o.tp.clear(); }
    else if (o.op == "assign" || o.op == "move" || o.op == "swap") {
      o.tb = "d"; o.ti = 1 + (int)g.next((unsigned)nd); o.tp.clear();
      o.sb = "d"; o.si = 1 + (int)g.next((unsigned)nd);
      if (o.si == o.ti && o.op != "assign") o.si = (o.ti % nd) + 1;
      if (o.si == o.ti && o.op != "assign") o.op = "assign";
    } else if (o.op == "deser") {
      std::string text;
      o.v = randJson(g, 0, text);
      o.x = text;
    }
    if (o.op == "docto") { o.tb = "d"; o.ti = 1 + (int)g.next((unsigned)nd); o.tp.clear(); }
    return o;
  }

  // conservative bookkeeping after the operation ran
  void after(const Op& o, World& w) {
    auto kill = [&](int d) {
      for (int r = 0; r < nr; r++)
        if (refDoc[r] == d && !isRoot[r]) usable[r] = false;
    };
    int dd = docOf(o.tb, o.ti);
    bool mutates = o.op != "bind";
    if (mutates && dd) kill(dd);
    if (o.op == "move" || o.op == "swap") kill(o.si);
    if (o.r) {
      int r = o.r - 1;
      usable[r] = true;
      bool unbound = w.ref(o.r).isUnbound();
      refDoc[r] = unbound ? 0 : dd;
      isRoot[r] = !unbound && o.tp.empty() && (o.tb == "d" || isRoot[o.ti - 1]) && (o.op == "bind" || o.op == "to" || o.op == "docto");
    }
  }
};

static size_t totalNodes(const mj::Value& v) {
  size_t n = 1;
  for (auto& c : v.at("c").a) n += totalNodes(c);
  return n;
}

// maps addresses of pool lists / string pools / resource managers to small ids: the documents
// of the world are 1..nd, any other JsonDocument (a temporary) gets an id >= 100
struct AddrMap {
  struct Range { const char* lo; const char* hi; long id; };
  std::vector<Range> ranges;
  long nextTemp = 100;
  void reset(World& w) {
    ranges.clear();
    for (int d = 1; d <= w.nd; d++) {
      const char* p = reinterpret_cast<const char*>(&w.doc(d));
      ranges.push_back({p, p + sizeof(JsonDocument), d});
    }
  }
  long id(const void* q) {
    const char* p = reinterpret_cast<const char*>(q);
    for (auto& r : ranges) if (p >= r.lo && p < r.hi) return r.id;
    // a temporary document: any address within sizeof(JsonDocument) of this one is the same object
    ranges.push_back({p - sizeof(JsonDocument), p + sizeof(JsonDocument), nextTemp});
    return nextTemp++;
  }
};

int main(int argc, char** argv) {
  if (argc < 4) { fprintf(stderr, "usage: doc_record out seed events [ndocs nrefs] [--events]\n"); return 2; }
  signal(SIGSEGV, onSignal);
  signal(SIGABRT, onSignal);
  signal(SIGALRM, onSignal);
  std::ofstream out(argv[1]);
  unsigned long long seed = strtoull(argv[2], nullptr, 10);
  long events = atol(argv[3]);
  bool withEvents = false;
  std::vector<const char*> pos;
  for (int k = 4; k < argc; k++) {
    if (std::string(argv[k]) == "--events") withEvents = true;
    else pos.push_back(argv[k]);
  }
  int nd = pos.size() > 0 ? atoi(pos[0]) : 2, nr = pos.size() > 1 ? atoi(pos[1]) : 3;
  AddrMap amap;
  std::map<unsigned long, long> nodeIds;
  long hookLines = 0;
  if (withEvents) {
    verifHookSink() = [&](const VerifHookEvent& e) {
      long a = (long)e.a, b = (long)e.b;
      if (e.kind == EV_POOLS_SWAP || e.kind == EV_POOLS_MOVE || e.kind == EV_STR_SWAP)
        a = amap.id(reinterpret_cast<const void*>(e.a));
      if (e.kind == EV_STR_ADD || e.kind == EV_STR_HIT || e.kind == EV_STR_DEREF || e.kind == EV_STR_BUILDER_HIT) {
        auto it = nodeIds.find(e.a);
        if (e.kind == EV_STR_ADD || it == nodeIds.end()) {
          static long nodeCounter = 0;
          long nid = ++nodeCounter;
          if (e.kind == EV_STR_ADD) nodeIds[e.a] = nid, a = nid;
          else a = -1;  // a node nobody announced
        } else
          a = it->second;
        if (e.kind == EV_STR_DEREF && b == 0) nodeIds.erase(e.a);
        if (e.kind == EV_STR_ADD) b = (long)e.b;
      }
      out << "{\"e\":\"h\",\"k\":" << e.kind << ",\"L\":" << amap.id(e.self) << ",\"a\":" << a << ",\"b\":" << b << "}\n";
      hookLines++;
    };
  }
  long written = 0, opsDone = 0;
  unsigned long long round = 0;
  while (written < events) {
    round++;
    Gen gen(seed * 7919 + round, nd, nr);
    World w(nd, nr);
    Kinds ks(seed * 104729 + round);
    {
      mj::Value ev = mj::Value::mkObj();
      ev.set("e", mj::Value::mkStr("reset"));
      ev.set("nd", mj::Value::mkInt(nd));
      ev.set("nr", mj::Value::mkInt(nr));
      if (withEvents) {
        amap.reset(w);
        nodeIds.clear();
        mj::Value geo = mj::Value::mkObj();
        geo.set("cap", mj::Value::mkInt(ARDUINOJSON_POOL_CAPACITY));
        geo.set("init", mj::Value::mkInt(ARDUINOJSON_INITIAL_POOL_COUNT));
        bool small = ARDUINOJSON_SLOT_ID_SIZE <= 2;
        geo.set("null", mj::Value::mkInt(small ? (long long)ArduinoJsonVerifInspector::nullSlot() : -1));
        geo.set("maxp", mj::Value::mkInt(small ? (long long)ArduinoJsonVerifInspector::maxPools() : -1));
        ev.set("geo", geo);
      }
      out << mj::dump(ev) << "\n";
      written++;
    }
    if (withEvents) {
      for (auto& a : w.allocs)
        a->sink = [&](const AllocEvent& e) {
          out << "{\"e\":\"m\",\"k\":\"" << e.kind << "\",\"al\":" << e.alloc << ",\"b\":" << e.blk << ",\"b2\":" << e.blk2
              << ",\"n\":" << (long)e.size << ",\"ok\":" << (e.ok ? "true" : "false") << "}\n";
          hookLines++;
        };
    }
    int len = 20 + (int)gen.g.next(120);
    for (int k = 0; k < len && written < events; k++) {
      g_line = written;
      alarm(60);
      Op o = gen.make();
      if (withEvents) out << "{\"e\":\"begin\"}\n";
      std::string ret = exec(w, o, ks);
      gen.after(o, w);
      opsDone++;
      std::vector<std::string> status;
      for (int r = 0; r < nr; r++) status.push_back(gen.usable[r] ? "live" : "dead");
      mj::Value obs = observe(w, status);
      size_t nodes = 0;
      for (auto& d : obs.at("docs").a) nodes += totalNodes(d.at("root"));
      for (auto& r : obs.o[1].second.a)
        if (r.str("st") == "dead") r.set("st", mj::Value::mkStr("skip"));
      mj::Value ev = mj::Value::mkObj();
      ev.set("e", mj::Value::mkStr("op"));
      ev.set("op", opJson(o));
      ev.set("ret", mj::Value::mkStr(ret));
      ev.set("obs", obs);
      if (withEvents) {
        mj::Value snaps = mj::Value::mkArr();
        for (int d = 1; d <= nd; d++)
          snaps.a.push_back(ArduinoJsonVerifInspector::toJson(ArduinoJsonVerifInspector::snapshot(w.doc(d))));
        ev.set("snap", snaps);
        mj::Value owners = mj::Value::mkArr();
        for (int d = 1; d <= nd; d++) {
          long id = 0;
          for (auto& a : w.allocs) if (w.doc(d).allocator() == a.get()) id = a->id();
          owners.a.push_back(mj::Value::mkInt(id));
        }
        ev.set("al", owners);
      }
      out << mj::dump(ev) << "\n";
      written++;
      if (nodes > 60) break;  // keep observations small: start a fresh world
    }
    if (withEvents) out << "{\"e\":\"begin\"}\n";
    w.docs.clear();
    if (withEvents) out << "{\"e\":\"destroy\"}\n";
    for (auto& a : w.allocs) a->sink = nullptr;
    for (auto& a : w.allocs)
      if (a->liveBlocks() != 0 || !a->errors().empty()) {
        printf("LEDGER idx=%ld allocator %d: %zu blocks live after destruction%s\n", written, a->id(), a->liveBlocks(),
               a->errors().empty() ? "" : (", " + a->errors()[0]).c_str());
        return 1;
      }
  }
  verifHookSink() = nullptr;
  printf("SUMMARY events=%ld ops=%ld rounds=%llu hook_events=%ld\n", written, opsDone, round, hookLines);
  return 0;
}
