// C19: behaviour exactly at, one below and one above each capacity limit, for the geometry this
// binary was built with.  One ndjson event per scenario, validated by spec/LimitsTrace.tla (which
// computes the expected counts from the geometry).
#include <cstdio>
#include <string>
#include <signal.h>
#include <unistd.h>

#include "common/verif_allocator.hpp"
#include "common/inspector.hpp"

using namespace ArduinoJson;

static const char* g_scn = "?";
static void onCrash(const char* what) {
  char buf[160];
  int n = snprintf(buf, sizeof buf, "\nCRASH scenario=%s what=%s\n", g_scn, what);
  if (write(1, buf, (size_t)n)) {}
}
extern "C" void __asan_on_error() { onCrash("asan"); }
static void onSignal(int sig) { onCrash(sig == SIGSEGV ? "sigsegv" : sig == SIGALRM ? "timeout" : "sigabrt"); _exit(3); }

static void emit(const char* scn, long okCount, bool failRet, bool ovf, bool intact, bool reusable, bool cleanAfterClear,
                 long extra, bool ledgerEmpty) {
  printf("{\"e\":\"limit\",\"scn\":\"%s\",\"ok\":%ld,\"failret\":%s,\"ovf\":%s,\"intact\":%s,\"reusable\":%s,"
         "\"clearok\":%s,\"extra\":%ld,\"ledger\":%s}\n",
         scn, okCount, failRet ? "true" : "false", ovf ? "true" : "false", intact ? "true" : "false",
         reusable ? "true" : "false", cleanAfterClear ? "true" : "false", extra, ledgerEmpty ? "true" : "false");
  fflush(stdout);
}

static bool wellFormed(const JsonDocument& d) {
  auto s = ArduinoJsonVerifInspector::snapshot(d);
  return s.problems.empty();
}

int main() {
  signal(SIGSEGV, onSignal);
  signal(SIGABRT, onSignal);
  signal(SIGALRM, onSignal);
  const unsigned long N = ArduinoJsonVerifInspector::nullSlot();  // number of usable slot ids
  const bool bounded = ARDUINOJSON_SLOT_ID_SIZE <= 2;
  const size_t maxLen = detail::StringNode::maxLength;
  printf("{\"e\":\"geo\",\"null\":%ld,\"maxlen\":%ld,\"cap\":%d,\"init\":%d,\"idsize\":%d,\"lensize\":%d}\n",
         bounded ? (long)N : -1L, ARDUINOJSON_STRING_LENGTH_SIZE <= 2 ? (long)maxLen : -1L, ARDUINOJSON_POOL_CAPACITY,
         ARDUINOJSON_INITIAL_POOL_COUNT, ARDUINOJSON_SLOT_ID_SIZE, ARDUINOJSON_STRING_LENGTH_SIZE);
  alarm(600);

  if (bounded) {
    {  // elements that need one slot each
      g_scn = "elems32";
      VerifAllocator a(1);
      bool ledger;
      {
        JsonDocument doc(&a);
        long n = 0;
        bool r = true;
        while (n < (long)N + 10 && (r = doc.add((int)(n % 1000)))) n++;
        bool ovf = doc.overflowed();
        bool intact = doc.size() == (size_t)n && wellFormed(doc);
        long k = 0;
        for (JsonVariantConst v : doc.as<JsonArrayConst>()) { if (v.as<int>() != (int)(k % 1000)) intact = false; k++; }
        doc.remove(0);
        bool reusable = doc.add(7) && doc[doc.size() - 1] == 7 && doc.size() == (size_t)n && wellFormed(doc);
        doc.clear();
        // usable again after it is cleared: the same number of elements fits again, twice over
        bool clearok = !doc.overflowed();
        for (int round = 0; round < 2 && clearok; round++) {
          long n2 = 0;
          while (n2 < (long)N + 10 && doc.add((int)(n2 % 1000))) n2++;
          clearok = n2 == n && doc.size() == (size_t)n && wellFormed(doc);
          long k2 = 0;
          for (JsonVariantConst v : doc.as<JsonArrayConst>()) { if (v.as<int>() != (int)(k2 % 1000)) clearok = false; k2++; }
          doc.clear();
          clearok = clearok && !doc.overflowed();
        }
        clearok = clearok && doc.add(1) && doc.size() == 1;
        emit(g_scn, n, r, ovf, intact, reusable, clearok, 0, true);
      }
      ledger = a.liveBlocks() == 0 && a.errors().empty();
      if (!ledger) emit("elems32-ledger", 0, false, false, false, false, false, 0, false);
    }
    {  // elements that need two slots each (extension slot)
      g_scn = "elems64";
      VerifAllocator a(1);
      {
        JsonDocument doc(&a);
        long n = 0;
        bool r = true;
        while (n < (long)N + 10 && (r = doc.add((long long)1099511627776LL + n))) n++;
        bool ovf = doc.overflowed();
        bool intact = doc.size() == (size_t)n && wellFormed(doc);
        long k = 0;
        for (JsonVariantConst v : doc.as<JsonArrayConst>()) { if (v.as<long long>() != 1099511627776LL + k) intact = false; k++; }
        long extra = 0;  // one-slot values that still fit (the failed add must not leak its element slot)
        while (extra < 5 && doc.add(1)) extra++;
        doc.remove(0);
        bool reusable = doc.add((long long)1099511627776LL) && wellFormed(doc);
        doc.clear();
        bool clearok = !doc.overflowed();
        {
          long n2 = 0;
          while (n2 < (long)N + 10 && doc.add((long long)1099511627776LL + n2)) n2++;
          clearok = clearok && n2 == n && doc.size() == (size_t)n && wellFormed(doc);
          doc.clear();
        }
        clearok = clearok && !doc.overflowed() && doc.add(1.5) && doc.size() == 1;
        emit(g_scn, n, r, ovf, intact, reusable, clearok, extra, true);
      }
      if (!(a.liveBlocks() == 0 && a.errors().empty())) emit("elems64-ledger", 0, false, false, false, false, false, 0, false);
    }
    {  // members: key slot + value slot
      g_scn = "members";
      VerifAllocator a(1);
      {
        JsonDocument doc(&a);
        long n = 0;
        bool r = true;
        while (n < (long)N + 10) {
          std::string key = "k" + std::to_string(n);
          r = doc[key].set(n % 100);
          if (!r) break;
          n++;
        }
        bool ovf = doc.overflowed();
        bool intact = doc.size() == (size_t)n && wellFormed(doc);
        long k = 0;
        for (JsonPairConst kv : doc.as<JsonObjectConst>()) {
          if (std::string(kv.key().c_str()) != "k" + std::to_string(k) || kv.value().as<long>() != k % 100) intact = false;
          k++;
        }
        long extra = 0;
        doc.remove("k0");
        bool reusable = doc[std::string("again")].set(5) && doc["again"] == 5 && doc.size() == (size_t)n && wellFormed(doc);
        doc.clear();
        bool clearok = !doc.overflowed() && doc["x"].set(1) && doc.size() == 1;
        emit(g_scn, n, r, ovf, intact, reusable, clearok, extra, true);
      }
      if (!(a.liveBlocks() == 0 && a.errors().empty())) emit("members-ledger", 0, false, false, false, false, false, 0, false);
    }
    {  // users of one shared copied string: the reference counter has the width of a slot id
      g_scn = "shared";
      VerifAllocator a(1);
      {
        JsonDocument doc(&a);
        long n = 0;
        bool r = true;
        while (n < (long)N + 10 && (r = doc.add(std::string("shared")))) n++;
        bool ovf = doc.overflowed();
        auto snap = ArduinoJsonVerifInspector::snapshot(doc);
        bool intact = doc.size() == (size_t)n && snap.problems.empty() && snap.strings.size() == 1 &&
                      snap.strings[0].refs == (unsigned long)n;
        for (JsonVariantConst v : doc.as<JsonArrayConst>()) if (v != "shared") intact = false;
        doc.remove(0);
        bool reusable = doc.add(std::string("shared")) && doc.size() == (size_t)n;
        doc.clear();
        bool clearok = !doc.overflowed() && doc.add(std::string("shared")) && doc[0] == "shared";
        emit(g_scn, n, r, ovf, intact, reusable, clearok, 0, true);
      }
      if (!(a.liveBlocks() == 0 && a.errors().empty())) emit("shared-ledger", 0, false, false, false, false, false, 0, false);
    }
    {  // deserialization of an array with exactly N and N+1 elements
      g_scn = "deser";
      for (int over = 0; over <= 1; over++) {
        VerifAllocator a(1);
        {
          JsonDocument doc(&a);
          std::string text = "[";
          for (unsigned long i = 0; i < N + (unsigned long)over; i++) { if (i) text += ','; text += '0' + char(i % 10); }
          text += "]";
          DeserializationError e = deserializeJson(doc, text);
          bool ok = e == DeserializationError::Ok;
          bool nomem = e == DeserializationError::NoMemory;
          bool intact = wellFormed(doc) && (ok ? doc.size() == N : doc.size() <= N);
          std::string out;
          serializeJson(doc, out);
          if (ok && out != text) intact = false;
          bool ovf = doc.overflowed();
          long sizeAfter = (long)doc.size();
          doc.clear();
          bool clearok = !doc.overflowed() && deserializeJson(doc, "[1,2]") == DeserializationError::Ok && doc.size() == 2;
          emit(over ? "deser-over" : "deser-at", ok ? sizeAfter : -1, over ? nomem : ok, ovf, intact, true, clearok, 0, true);
        }
        if (!(a.liveBlocks() == 0 && a.errors().empty())) emit("deser-ledger", 0, false, false, false, false, false, 0, false);
      }
    }
  }
  if (ARDUINOJSON_STRING_LENGTH_SIZE <= 2) {
    g_scn = "strlen";
    for (int delta = -1; delta <= 1; delta++) {
      VerifAllocator a(1);
      {
        JsonDocument doc(&a);
        doc["keep"] = 42;
        std::string s(maxLen + (size_t)delta, 'x');
        s[s.size() / 2] = 'y';
        bool r = doc["big"].set(s);
        bool ovf = doc.overflowed();
        bool stored = doc["big"].as<std::string>() == s && doc["big"].as<JsonString>().size() == s.size();
        bool intact = doc["keep"] == 42 && wellFormed(doc) && (r ? stored : doc["big"].isNull());
        // the same string as a key, and through the deserializer
        JsonDocument d2(&a);
        bool rk = d2[s].set(1);
        bool keyok = rk ? (d2.size() == 1 && d2[s] == 1) : (d2.size() == 0 || d2[s].isNull());
        JsonDocument d3(&a);
        DeserializationError e = deserializeJson(d3, "[\"" + s + "\",1]");
        bool deserok = delta <= 0 ? (e == DeserializationError::Ok && d3[0].as<std::string>() == s && d3[1] == 1)
                                  : (e == DeserializationError::NoMemory);
        // and through the MessagePack deserializer, right after a repeated string (its reading buffer is kept)
        {
          std::string mp = "\x93\xA8" "abcdefgh" "\xA8" "abcdefgh";
          size_t L = s.size();
          if (L < 256) { mp += char(0xD9); mp += char(L); }
          else if (L < 65536) { mp += char(0xDA); mp += char(L >> 8); mp += char(L & 255); }
          else { mp += char(0xDB); mp += char((L >> 24) & 255); mp += char((L >> 16) & 255); mp += char((L >> 8) & 255); mp += char(L & 255); }
          mp += s;
          JsonDocument d4(&a);
          DeserializationError e4 = deserializeMsgPack(d4, mp.data(), mp.size());
          bool ok4 = delta <= 0 ? (e4 == DeserializationError::Ok && d4[2].as<std::string>() == s && d4[0] == "abcdefgh")
                                : (e4 == DeserializationError::NoMemory);
          deserok = deserok && ok4 && wellFormed(d4);
        }
        doc.clear();
        bool clearok = !doc.overflowed() && doc["a"].set(std::string("b")) && doc["a"] == "b";
        emit(delta < 0 ? "strlen-below" : delta == 0 ? "strlen-at" : "strlen-over", r ? 1 : 0, rk, ovf, intact && keyok,
             deserok, clearok, (long)delta, true);
      }
      if (!(a.liveBlocks() == 0 && a.errors().empty())) emit("strlen-ledger", 0, false, false, false, false, false, 0, false);
    }
  }
  // far below every limit of a build with 4-byte slot ids: one copied string shared by more users than 16 bits
  // can count; removing one user leaves the others intact, and the linked spelling behaves the same (C14, C19)
  if (ARDUINOJSON_SLOT_ID_SIZE >= 4) {
    g_scn = "sharers";
    VerifAllocator a(1);
    {
      const long M = 65536 + 4;
      JsonDocument doc(&a), lnk(&a);
      long n = 0;
      bool r = true;
      while (n < M && (r = doc.add(std::string("shared"))) && lnk.add("shared")) n++;
      bool ovf = doc.overflowed();
      doc.remove(0);
      lnk.remove(0);
      doc[5] = 7;   // overwriting another user
      lnk[5] = 7;
      bool intact = doc.size() == (size_t)(n - 1) && wellFormed(doc) && doc == lnk;
      long k = 0;
      for (JsonVariantConst v : doc.as<JsonArrayConst>()) { if (k != 5 && v != "shared") intact = false; k++; }
      auto snap = ArduinoJsonVerifInspector::snapshot(doc);
      intact = intact && snap.problems.empty() && snap.strings.size() == 1 && snap.strings[0].refs == (unsigned long)(n - 2);
      bool reusable = doc.add(std::string("shared")) && doc[doc.size() - 1] == "shared";
      doc.clear();
      bool clearok = !doc.overflowed() && doc.add(std::string("shared")) && doc[0] == "shared";
      emit(g_scn, n, !r, ovf, intact, reusable, clearok, 0, true);
    }
    if (!(a.liveBlocks() == 0 && a.errors().empty())) emit("sharers-ledger", 0, false, false, false, false, false, 0, false);
  }
  printf("{\"e\":\"end\"}\n");
  return 0;
}
