// C05: allocation failure at every position.  For every TLC-generated behaviour the LAST operation
// is executed once fault-free to count its N failable allocator calls, then again with a failure at
// call k and with failures from call k on, for every k in 1..N.  One ndjson event per faulted run
// for spec/FaultTrace.tla:
//   {"ops":[...], "mode":"single"|"from", "k":k, "n":N, "fired":bool, "ret":..., "obs":<post>,
//    "insp":[problems per doc], "live":blocks still live after clear(), "works":bool}
// plus "chaos" events: random multi-failure subsets over the WHOLE behaviour (safety only).  Failures in
// the prefix change what the later operations address, so each operation is executed only if it still
// satisfies Document!Legal in the state actually reached (common/concretelegal.hpp); the behaviour ends
// at the first one that does not ("trunc" = operations executed, "why" = dead-ref | alias | prefix-source).
//
// usage: doc_fault <behaviours.ndjson> <seed> <out.ndjson> [maxk]
#include <cstdio>
#include <fstream>
#include <signal.h>
#include <unistd.h>

#include "common/docworld.hpp"
#include "common/inspector.hpp"
#include "common/concretelegal.hpp"

using namespace dw;

static volatile long g_line = -1;
static volatile long g_k = 0;
static void onCrash(const char* what) {
  char buf[160];
  int n = snprintf(buf, sizeof buf, "\nCRASH idx=%ld k=%ld what=%s\n", g_line, g_k, what);
  if (write(1, buf, (size_t)n)) {}
}
extern "C" void __asan_on_error() { onCrash("asan"); }
static void onSignal(int sig) { onCrash(sig == SIGSEGV ? "sigsegv" : sig == SIGALRM ? "timeout" : "sigabrt"); _exit(3); }

static mj::Value inspect(World& w) {
  mj::Value a = mj::Value::mkArr();
  for (int d = 1; d <= w.nd; d++) {
    auto s = ArduinoJsonVerifInspector::snapshot(w.doc(d));
    mj::Value pr = mj::Value::mkArr();
    for (auto& p : s.problems) pr.a.push_back(mj::Value::mkStr(p));
    for (auto& st : s.strings)
      if (st.refs == 0) pr.a.push_back(mj::Value::mkStr("string node with zero references"));
    a.a.push_back(pr);
  }
  return a;
}

// The read-API projection does not terminate on a cyclic tree: when the inspector has found structural
// damage the documents are not walked, and FaultTrace rejects the event on "insp" alone.
static mj::Value observeUnlessDamaged(World& w, const std::vector<std::string>& status, const mj::Value& insp) {
  bool damaged = false;
  for (auto& d : insp.a) if (!d.a.empty()) damaged = true;
  if (!damaged) return observe(w, status);
  mj::Value obs = mj::Value::mkObj(), docs = mj::Value::mkArr(), refs = mj::Value::mkArr();
  for (int d = 1; d <= w.nd; d++) {
    mj::Value e = mj::Value::mkObj();
    e.set("root", vproj::node("x", ""));
    e.set("ovf", mj::Value::mkBool(w.doc(d).overflowed()));
    e.set("ser", mj::Value::mkStr(""));
    docs.a.push_back(e);
  }
  for (int r = 1; r <= w.nr; r++) {
    mj::Value e = mj::Value::mkObj();
    e.set("st", mj::Value::mkStr("dead"));
    e.set("v", vproj::node("x", ""));
    refs.a.push_back(e);
  }
  obs.set("docs", docs);
  obs.set("refs", refs);
  return obs;
}

// after the faulted operation: everything is returned on clear(), and the document works again
static void aftermath(World& w, long& live, bool& works) {
  VerifAllocator::disarm();
  for (int d = 1; d <= w.nd; d++) w.doc(d).clear();
  live = 0;
  for (auto& a : w.allocs) live += (long)a->liveBlocks();
  works = true;
  for (int d = 1; d <= w.nd; d++) {
    JsonDocument& doc = w.doc(d);
    if (doc.overflowed() || !doc.isNull()) works = false;
    doc["k"][1] = std::string("v");
    doc["n"] = 1099511627776LL;
    std::string out;
    serializeJson(doc, out);
    if (out != "{\"k\":[null,\"v\"],\"n\":1099511627776}" || doc.overflowed()) works = false;
  }
}

int main(int argc, char** argv) {
  if (argc < 4) { fprintf(stderr, "usage: doc_fault behaviours seed out [maxk]\n"); return 2; }
  signal(SIGSEGV, onSignal);
  signal(SIGABRT, onSignal);
  signal(SIGALRM, onSignal);
  std::ifstream in(argv[1]);
  unsigned long long seed = strtoull(argv[2], nullptr, 10);
  std::ofstream out(argv[3]);
  long maxk = argc > 4 ? atol(argv[4]) : 40;
  std::string line;
  long idx = 0, events = 0, fired = 0, behaviours = 0, ledgerErrors = 0, chaosRuns = 0, chaosTruncated = 0, chaosOps = 0;
  while (std::getline(in, line)) {
    if (line.empty()) continue;
    g_line = idx;
    g_k = 0;
    alarm(60);  // a behaviour that does not finish is reported, not waited for
    mj::Value b = mj::parse(line);
    const mj::Value& opsJ = b.at("ops");
    const mj::Value& obs = b.at("obs");
    int nd = (int)obs.at("docs").a.size(), nr = (int)obs.at("refs").a.size();
    std::vector<std::string> status;
    for (auto& r : obs.at("refs").a) status.push_back(r.str("st"));
    std::vector<Op> ops;
    for (auto& o : opsJ.a) ops.push_back(parseOp(o));
    unsigned long long kseed = seed * 1000003ull + (unsigned long long)idx;
    // dry run: count the failable calls of the last operation
    long N = 0;
    {
      World w(nd, nr);
      Kinds ks(kseed);
      ks.preferSet = true;
      for (size_t i = 0; i + 1 < ops.size(); i++) exec(w, ops[i], ks);
      VerifAllocator::resetGlobalCount();
      exec(w, ops.back(), ks);
      N = VerifAllocator::global().failable;
    }
    behaviours++;
    for (int mode = 0; mode < 2; mode++) {
      for (long k = 1; k <= N && k <= maxk; k++) {
        if (mode == 1 && k == N) continue;  // "from the last call on" is the single failure at N
        g_k = k;
        World w(nd, nr);
        Kinds ks(kseed);  // same kind choices as the dry run
        ks.preferSet = true;
        for (size_t i = 0; i + 1 < ops.size(); i++) exec(w, ops[i], ks);
        if (mode == 0) VerifAllocator::armSingle(k); else VerifAllocator::armFrom(k);
        std::string ret = exec(w, ops.back(), ks);
        long nf = VerifAllocator::global().fired;
        VerifAllocator::disarm();
        mj::Value ev = mj::Value::mkObj();
        ev.set("e", mj::Value::mkStr("fault"));
        ev.set("ops", opsJ);
        ev.set("mode", mj::Value::mkStr(mode == 0 ? "single" : "from"));
        ev.set("k", mj::Value::mkInt(k));
        ev.set("n", mj::Value::mkInt(N));
        ev.set("fired", mj::Value::mkBool(nf > 0));
        ev.set("ret", mj::Value::mkStr(ret));
        mj::Value insp = inspect(w);
        ev.set("obs", observeUnlessDamaged(w, status, insp));
        ev.set("insp", insp);
        long live;
        bool works;
        aftermath(w, live, works);
        ev.set("live", mj::Value::mkInt(live));
        ev.set("works", mj::Value::mkBool(works));
        w.docs.clear();
        bool ledger = true;
        for (auto& a : w.allocs) if (a->liveBlocks() != 0 || !a->errors().empty()) ledger = false;
        ev.set("ledger", mj::Value::mkBool(ledger));
        if (!ledger) ledgerErrors++;
        out << mj::dump(ev) << "\n";
        events++;
        if (nf > 0) fired++;
      }
    }
    // chaos: a random subset of failures over the whole behaviour
    {
      World w(nd, nr);
      Kinds ks(kseed);
      Kinds pick(kseed ^ 0x5555);
      std::set<long> ks_;
      long total = 0;
      {
        World w0(nd, nr);
        Kinds k0(kseed);
        VerifAllocator::resetGlobalCount();
        for (auto& o : ops) exec(w0, o, k0);
        total = VerifAllocator::global().failable;
      }
      for (long j = 1; j <= total; j++) if (pick.next(3) == 0) ks_.insert(j);
      if (!ks_.empty()) {
        g_k = -1;
        VerifAllocator::armSet(ks_);
        size_t done = 0;
        std::string why;
        for (auto& o : ops) {
          if (!legalNow(w, o, why)) break;  // read-only: no allocator call
          exec(w, o, ks);
          done++;
        }
        VerifAllocator::disarm();
        chaosRuns++;
        chaosOps += (long)done;
        if (done < ops.size()) chaosTruncated++;
        // a reference may dangle after a failed operation sequence: only documents are observed
        std::vector<std::string> dead(status.size(), "dead");
        mj::Value ev = mj::Value::mkObj();
        ev.set("e", mj::Value::mkStr("chaos"));
        ev.set("trunc", mj::Value::mkInt((long)done));
        ev.set("why", mj::Value::mkStr(why));
        mj::Value insp = inspect(w);
        ev.set("obs", observeUnlessDamaged(w, dead, insp));
        ev.set("insp", insp);
        long live;
        bool works;
        aftermath(w, live, works);
        ev.set("live", mj::Value::mkInt(live));
        ev.set("works", mj::Value::mkBool(works));
        w.docs.clear();
        bool ledger = true;
        for (auto& a : w.allocs) if (a->liveBlocks() != 0 || !a->errors().empty()) ledger = false;
        ev.set("ledger", mj::Value::mkBool(ledger));
        out << mj::dump(ev) << "\n";
        events++;
      }
    }
    idx++;
  }
  printf("SUMMARY behaviours=%ld events=%ld fired=%ld ledger_errors=%ld chaos_runs=%ld chaos_ops=%ld chaos_truncated=%ld\n", behaviours, events,
         fired, ledgerErrors, chaosRuns, chaosOps, chaosTruncated);
  return 0;
}
