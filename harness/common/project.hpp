// Projection of a value through the PUBLIC read API only, into the node format
// of spec/JsonValue.tla: {t, s, c, z (size), n (nesting), b (as<bool>)}.
// While walking, the observables are cross-checked against each other (key
// lookup vs iteration, index vs iteration, size vs iteration); an
// inconsistency is reported as an extra field "bad" that no model value has.
#pragma once
#include <ArduinoJson.h>

#include <cmath>
#include <cstdio>
#include <sstream>
#include <string>
#include <string_view>
#include <vector>

#include "minijson.hpp"

namespace vproj {

using namespace ArduinoJson;

// byte string -> spec token: printable ASCII (except % " \) verbatim, others %XX
inline std::string tokEncode(const char* p, size_t n) {
  std::string out;
  for (size_t k = 0; k < n; k++) {
    unsigned char c = (unsigned char)p[k];
    if (c >= 0x20 && c < 0x7f && c != '%' && c != '"' && c != '\\')
      out += char(c);
    else {
      char buf[4];
      snprintf(buf, sizeof buf, "%%%02X", c);
      out += buf;
    }
  }
  return out;
}
inline std::string tokEncode(const std::string& s) { return tokEncode(s.data(), s.size()); }
// for whole JSON texts: quotes and backslashes stay readable
inline std::string tokEncodeLoose(const std::string& s) {
  std::string out;
  for (unsigned char c : s) {
    if (c >= 0x20 && c < 0x7f && c != '%') out += char(c);
    else { char buf[4]; snprintf(buf, sizeof buf, "%%%02X", c); out += buf; }
  }
  return out;
}
inline std::string tokDecode(const std::string& t) {
  std::string out;
  for (size_t k = 0; k < t.size(); k++) {
    if (t[k] == '%' && k + 2 < t.size() + 0 && k + 2 <= t.size() - 1 + 0) {
      out += char(strtol(t.substr(k + 1, 2).c_str(), nullptr, 16));
      k += 2;
    } else
      out += t[k];
  }
  return out;
}

// shortest decimal representation that round-trips the double
inline std::string shortestDouble(double d) {
  if (std::isnan(d)) return "nan";
  if (std::isinf(d)) return d > 0 ? "inf" : "-inf";
  char buf[40];
  if (d == std::floor(d) && std::fabs(d) < 1e15) {  // integral: plain digits, no exponent
    snprintf(buf, sizeof buf, "%.0f", d);
    return buf[0] == '-' && d == 0 ? "-0" : buf;
  }
  for (int prec = 1; prec <= 17; prec++) {
    snprintf(buf, sizeof buf, "%.*g", prec, d);
    if (strtod(buf, nullptr) == d) break;
  }
  return buf;
}

inline mj::Value node(const char* t, const std::string& s) {
  mj::Value v = mj::Value::mkObj();
  v.set("t", mj::Value::mkStr(t));
  v.set("s", mj::Value::mkStr(s));
  v.set("c", mj::Value::mkArr());
  v.set("z", mj::Value::mkInt(0));
  v.set("n", mj::Value::mkInt(0));
  v.set("b", mj::Value::mkBool(false));
  v.set("q", mj::Value::mkStr(""));
  v.set("k", mj::Value::mkBool(false));  // JsonString::isLinked(), strings only
  return v;
}

// forgets what isLinked() reported (runs in which every string argument is forced to one kind, whatever
// storage the specification's value asked for)
inline void dropStorage(mj::Value& v) {
  for (auto& e : v.a) dropStorage(e);
  for (auto& kv : v.o) {
    if (kv.first == "k" && kv.second.type == mj::Value::Bool) kv.second.b = false;
    else dropStorage(kv.second);
  }
}

inline void setBad(mj::Value& v, const std::string& why) {
  if (!v.has("bad")) v.set("bad", mj::Value::mkStr(why));
}

inline mj::Value project(JsonVariantConst v, int depth = 0);

inline mj::Value projectChildren(JsonVariantConst v, mj::Value& out, bool isObject) {
  mj::Value kids = mj::Value::mkArr();
  size_t count = 0;
  if (isObject) {
    JsonObjectConst obj = v.as<JsonObjectConst>();
    if (obj.isNull()) setBad(out, "is<JsonObject> but as<JsonObjectConst> is null");
    for (JsonPairConst kv : obj) {
      JsonString k = kv.key();
      mj::Value m = node("m", tokEncode(k.c_str(), k.size()));
      mj::Value val = project(kv.value());
      m.o[2].second.a.push_back(val);  // "c"
      kids.a.push_back(m);
      count++;
      if (count > 100000) { setBad(out, "iteration does not terminate"); break; }
    }
    if (obj.size() != count) setBad(out, "JsonObjectConst::size() disagrees with iteration");
    // key lookup must find the first member carrying that key
    for (size_t j = 0; j < kids.a.size(); j++) {
      const std::string key = tokDecode(kids.a[j].str("s"));
      size_t first = j;
      for (size_t j2 = 0; j2 < j; j2++)
        if (kids.a[j2].str("s") == kids.a[j].str("s")) { first = j2; break; }
      JsonVariantConst byKey = v[JsonString(key.data(), key.size())];
      mj::Value got = project(byKey);
      if (!mj::equal(got, kids.a[first].at("c").a[0]))
        setBad(out, "lookup of key '" + kids.a[j].str("s") + "' disagrees with iteration");
      if (obj[JsonString(key.data(), key.size())].isUnbound())
        setBad(out, "JsonObjectConst lookup unbound for an existing key");
      if (!mj::equal(project(v[key]), got)) setBad(out, "lookup by std::string key disagrees");
      if (!mj::equal(project(v[std::string_view(key)]), got)) setBad(out, "lookup by string_view key disagrees");
      if (key.find('\0') == std::string::npos) {
        if (!mj::equal(project(v[key.c_str()]), got)) setBad(out, "lookup by const char* key disagrees");
        std::vector<char> buf(key.begin(), key.end());
        buf.push_back(0);
        char* kp = buf.data();
        if (!mj::equal(project(v[kp]), got)) setBad(out, "lookup by char* key disagrees");
      }
    }
    if (!v["\x01no-such-key\x02"].isUnbound()) setBad(out, "lookup of an absent key is bound");
    if (!v[size_t(0)].isUnbound()) setBad(out, "index lookup on an object is bound");
  } else {
    JsonArrayConst arr = v.as<JsonArrayConst>();
    if (arr.isNull()) setBad(out, "is<JsonArray> but as<JsonArrayConst> is null");
    for (JsonVariantConst e : arr) {
      kids.a.push_back(project(e));
      count++;
      if (count > 100000) { setBad(out, "iteration does not terminate"); break; }
    }
    if (arr.size() != count) setBad(out, "JsonArrayConst::size() disagrees with iteration");
    for (size_t j = 0; j < kids.a.size(); j++) {
      mj::Value got = project(v[j]);
      if (!mj::equal(got, kids.a[j])) setBad(out, "element lookup disagrees with iteration");
    }
    if (!v[kids.a.size()].isUnbound()) setBad(out, "element one past the end is bound");
    if (!v["a"].isUnbound()) setBad(out, "key lookup on an array is bound");
  }
  return kids;
}

// Derived read operations (JsonValue.tla: OrElse, SerCompose): defaults through operator| and the
// serialization of every SUB-value, decided from the projected kind t (not from is<T>() again).
inline void derivedReads(JsonVariantConst v, mj::Value& out, const std::string& t) {
  // v | default : the value when the variant holds that kind, the default otherwise
  if (t == "i") {
    if (v.is<long long>()) {
      if ((v | 12345LL) != v.as<long long>()) setBad(out, "integer | default did not give the integer");
    } else if ((v | 12345ULL) != v.as<unsigned long long>()) setBad(out, "unsigned | default did not give the value");
  } else {
    if ((v | 12345LL) != 12345LL || (v | 7U) != 7U || (v | (short)-3) != -3)
      setBad(out, "non-integer | integer default did not give the default");
  }
  if (t == "i" || t == "f") {
    double d = v | 2.5, a = v.as<double>();
    if (!(d == a || (d != d && a != a))) setBad(out, "number | double default did not give the number");
  } else if ((v | 2.5) != 2.5 || (v | 1.25f) != 1.25f) setBad(out, "non-number | float default did not give the default");
  if (t == "b") {
    if ((v | true) != v.as<bool>() || (v | false) != v.as<bool>()) setBad(out, "bool | default did not give the bool");
  } else if ((v | true) != true || (v | false) != false) setBad(out, "non-bool | bool default did not give the default");
  static const char dflt[] = "dflt";
  const char* p = v | dflt;
  std::string ds = v | std::string("dflt");
  if (t == "s") {
    if (p != v.as<const char*>()) setBad(out, "string | const char* default did not give the string");
    JsonString s = v.as<JsonString>();
    if (ds != std::string(s.c_str() ? s.c_str() : "", s.size())) setBad(out, "string | std::string default did not give the bytes");
  } else if (p != dflt || ds != "dflt") setBad(out, "non-string | string default did not give the default");

  // serialization of a sub-value: every destination agrees, containers are composed of their children
  std::string text;
  size_t n = serializeJson(v, text);
  if (n != text.size() || measureJson(v) != n) setBad(out, "serializeJson/measureJson of a sub-value disagree on the length");
  std::ostringstream os;
  os << v;
  if (os.str() != text) setBad(out, "ostream << value differs from serializeJson(value)");
  if (t == "a" || t == "o") {
    std::string want(t == "a" ? "[" : "{");
    bool first = true;
    if (t == "a") {
      for (JsonVariantConst e : v.as<JsonArrayConst>()) {
        std::string part;
        serializeJson(e, part);
        if (!first) want += ",";
        first = false;
        want += part;
      }
    } else {
      for (JsonPairConst kv : v.as<JsonObjectConst>()) {
        JsonDocument kd;
        kd.set(kv.key());
        std::string kpart, part;
        serializeJson(kd, kpart);
        serializeJson(kv.value(), part);
        if (!first) want += ",";
        first = false;
        want += kpart + ":" + part;
      }
    }
    want += (t == "a" ? "]" : "}");
    if (want != text) setBad(out, "serialization of a container is not composed of its members' serializations");
  }
}

inline mj::Value project(JsonVariantConst v, int depth) {
  if (depth > 64) { mj::Value x = node("x", ""); setBad(x, "too deep"); return x; }
  if (v.isUnbound()) {
    mj::Value x = node("x", "");
    if (!v.isNull() || v.size() != 0 || v.nesting() != 0 || v.as<bool>() || v.is<int>() ||
        v.is<JsonArrayConst>() || v.is<JsonObjectConst>() || v.is<const char*>() || v.as<int>() != 0)
      setBad(x, "unbound reference has observable content");
    return x;
  }
  mj::Value out;
  int kinds = 0;
  if (v.isNull()) { out = node("n", ""); kinds++; }
  if (v.is<bool>()) { out = node("b", v.as<bool>() ? "true" : "false"); kinds++; }
  if (v.is<JsonArrayConst>()) { out = node("a", ""); kinds++; }
  if (v.is<JsonObjectConst>()) { out = node("o", ""); kinds++; }
  if (v.is<const char*>() || v.is<JsonString>()) {
    JsonString s = v.as<JsonString>();
    out = node("s", s.c_str() ? tokEncode(s.c_str(), s.size()) : std::string("<null>"));
    kinds++;
    out.set("k", mj::Value::mkBool(s.isLinked()));
    if (!(v.is<const char*>() && v.is<JsonString>() && v.is<std::string>()))
      setBad(out, "is<string kinds> disagree");
    if (s.c_str() && s.c_str()[s.size()] != 0) setBad(out, "string not NUL-terminated at size()");
    std::string bytes(s.c_str() ? s.c_str() : "", s.size());
    if (v.as<std::string>() != bytes) setBad(out, "as<std::string> disagrees with as<JsonString>");
    if (v.as<std::string_view>() != std::string_view(bytes)) setBad(out, "as<string_view> disagrees");
    out.set("q", mj::Value::mkStr(std::to_string(v.as<long long>()) + "/" + shortestDouble(v.as<double>())));
    if ((double)v.as<float>() != (double)(float)v.as<double>() && v.as<double>() == v.as<double>())
      setBad(out, "as<float> and as<double> of a string disagree");
    // comparisons must see the bytes, whatever the storage and whatever the operand kind
    if (!(v == bytes) || (v != bytes)) setBad(out, "string != its own bytes (std::string operand)");
    if (!(v == JsonString(bytes.data(), bytes.size()))) setBad(out, "string != its own bytes (JsonString operand)");
    if (bytes.find('\0') == std::string::npos) {
      if (!(v == bytes.c_str()) || !(bytes.c_str() == v)) setBad(out, "string != its own bytes (const char* operand)");
      std::vector<char> buf(bytes.begin(), bytes.end());
      buf.push_back(0);
      char* p = buf.data();
      if (!(v == p)) setBad(out, "string != its own bytes (char* operand)");
    }
    if (v == bytes + "x" || v == std::string("\x01")) setBad(out, "string equal to different bytes");
    // ordering must not depend on the KIND of the operand that carries the other text (bytes >= 0x80 included)
    for (const char* probe : {"a", "\x80", "A\xC3\xA9", "42", "\xff\x01"}) {
      std::string ps(probe);
      bool lt = v < ps, gt = v > ps, le = v <= ps, ge = v >= ps;
      JsonString pj(ps.data(), ps.size());
      std::string_view pv(ps);
      std::vector<char> pb(ps.begin(), ps.end());
      pb.push_back(0);
      char* pp = pb.data();
      JsonDocument other;
      other.set(ps);
      JsonVariantConst ov = other.as<JsonVariantConst>();
      if ((v < probe) != lt || (v < pj) != lt || (v < pv) != lt || (v < pp) != lt || (v < ov) != lt ||
          (v > probe) != gt || (v > pj) != gt || (v > pv) != gt || (v > pp) != gt || (v > ov) != gt ||
          (v <= probe) != le || (v <= pj) != le || (v <= ov) != le || (v >= probe) != ge || (v >= pj) != ge || (v >= ov) != ge ||
          (probe > v) != lt || (ps > v) != lt || (pj > v) != lt || (ov > v) != lt)
        setBad(out, "ordering against a string depends on the kind of the operand");
    }
    if (v.is<int>() || v.is<double>() || v.is<bool>()) setBad(out, "string answers to a numeric kind");
  }
  bool isI = v.is<long long>(), isU = v.is<unsigned long long>();
  if (isI || isU) {
    out = node("i", isI ? std::to_string(v.as<long long>()) : std::to_string(v.as<unsigned long long>()));
    kinds++;
    if (!v.is<double>() || !v.is<float>()) setBad(out, "integer is not is<double>");
  } else if (v.is<double>()) {
    out = node("f", shortestDouble(v.as<double>()));
    kinds++;
    if (!v.is<float>()) setBad(out, "is<double> but not is<float>");
  }
  if (kinds == 0) {
    // raw (serialized / MsgPack bin / ext): its content is what as<std::string>() prints
    std::string s = v.as<std::string>();
    out = node("r", tokEncode(s));
    kinds = 1;
  }
  if (kinds != 1) setBad(out, "value answers to " + std::to_string(kinds) + " kinds");
  const std::string& t = out.str("t");
  if (t == "a" || t == "o") out.set("c", projectChildren(v, out, t == "o"));
  else if (v.size() != 0) setBad(out, "scalar with a size");
  out.set("z", mj::Value::mkInt((long long)v.size()));
  out.set("n", mj::Value::mkInt((long long)v.nesting()));
  out.set("b", mj::Value::mkBool(v.as<bool>()));
  if ((t == "n") != v.is<std::nullptr_t>()) setBad(out, "is<nullptr_t> disagrees with isNull");
  if (t != "s" && v.as<const char*>() != nullptr) setBad(out, "as<const char*> non-null for a non-string");
  if (t != "a" && !v.as<JsonArrayConst>().isNull()) setBad(out, "as<JsonArrayConst> bound for a non-array");
  if (t != "o" && !v.as<JsonObjectConst>().isNull()) setBad(out, "as<JsonObjectConst> bound for a non-object");
  if (!v.is<JsonVariantConst>()) setBad(out, "bound value is not is<JsonVariantConst>");
  derivedReads(v, out, t);
  return out;
}

}  // namespace vproj
