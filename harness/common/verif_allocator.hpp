// Instrumented allocator: ledger of live blocks, per-instance identity, call
// log, programmable fault schedule.  Shrinking reallocations never fail (the
// library relies on that and the properties exclude it).
#pragma once
#include <ArduinoJson.h>

#include <cstdint>
#include <cstdlib>
#include <cstring>
#include <functional>
#include <map>
#include <set>
#include <string>
#include <vector>

#include "hooks.hpp"

struct AllocEvent {
  char kind;       // 'A' allocate, 'F' deallocate, 'R' reallocate
  int alloc;       // allocator instance
  long blk;        // block id (for R: the old block)
  long blk2;       // for R: the new block id (0 when failed)
  size_t size;     // requested size
  bool ok;         // result non-null
};

class VerifAllocator : public ArduinoJson::Allocator {
 public:
  explicit VerifAllocator(int id = 0) : id_(id) {}
  ~VerifAllocator() {
    for (auto& kv : live_) free(kv.first);
  }

  // fault schedule over "failable" calls (allocate, growing reallocate), 1-based
  void failAt(std::set<long> ks) { failSet_ = std::move(ks); }
  void failFrom(long k) { failFrom_ = k; }
  void clearFaults() { failSet_.clear(); failFrom_ = 0; }
  long failableCalls() const { return failable_; }
  long faultsFired() const { return fired_; }
  void resetCounters() { failable_ = 0; fired_ = 0; calls_ = 0; }

  // a single block larger than this is refused, as a real heap would (keeps 4-byte length
  // configurations from reserving gigabytes for a length that is merely announced)
  static constexpr size_t maxBlock = 100000000;

  void* allocate(size_t n) override {
    calls_++;
    failable_++;
    if (shouldFail() || n > maxBlock) {
      fired_++;
      log({'A', id_, 0, 0, n, false});
      return nullptr;
    }
    void* p = malloc(n ? n : 1);
    if (p) memset(p, 0xA5, n);
    long b = ++nextBlk();
    live_[p] = {b, n};
    requested_ += n;
    liveBytes_ += n;
    if (liveBytes_ > peak_) peak_ = liveBytes_;
    log({'A', id_, b, 0, n, true});
    return p;
  }

  void deallocate(void* p) override {
    calls_++;
    if (!p) { log({'F', id_, 0, 0, 0, true}); return; }
    auto it = live_.find(p);
    if (it == live_.end()) {
      errors_.push_back("deallocate of a block this allocator does not own");
      log({'F', id_, -1, 0, 0, false});
      return;  // do not free: it belongs to somebody else (or is a double free)
    }
    log({'F', id_, it->second.blk, 0, it->second.size, true});
    liveBytes_ -= it->second.size;
    memset(p, 0xDD, it->second.size);
    live_.erase(it);
    free(p);
  }

  void* reallocate(void* p, size_t n) override {
    calls_++;
    if (!p) {
      // behaves as allocate
      failable_++;
      if (shouldFail()) { fired_++; log({'R', id_, 0, 0, n, false}); return nullptr; }
      void* q = malloc(n ? n : 1);
      long b = ++nextBlk();
      live_[q] = {b, n};
      requested_ += n; liveBytes_ += n; if (liveBytes_ > peak_) peak_ = liveBytes_;
      log({'R', id_, 0, b, n, true});
      return q;
    }
    auto it = live_.find(p);
    if (it == live_.end()) {
      errors_.push_back("reallocate of a block this allocator does not own");
      log({'R', id_, -1, 0, n, false});
      return nullptr;
    }
    Blk old = it->second;
    bool growing = n > old.size;
    if (growing) {
      failable_++;
      if (shouldFail() || n > maxBlock) { fired_++; log({'R', id_, old.blk, 0, n, false}); return nullptr; }
    }
    // always move, so that stale pointers into the old block are caught by ASan
    void* q = malloc(n ? n : 1);
    memcpy(q, p, n < old.size ? n : old.size);
    if (n > old.size) memset((char*)q + old.size, 0xA5, n - old.size);
    memset(p, 0xDD, old.size);
    live_.erase(it);
    free(p);
    long b = ++nextBlk();
    live_[q] = {b, n};
    if (growing) requested_ += n - old.size;
    liveBytes_ += n; liveBytes_ -= old.size;
    if (liveBytes_ > peak_) peak_ = liveBytes_;
    log({'R', id_, old.blk, b, n, true});
    return q;
  }

  size_t liveBlocks() const { return live_.size(); }
  size_t liveBytes() const { return liveBytes_; }
  size_t peakBytes() const { return peak_; }
  size_t requestedBytes() const { return requested_; }
  long calls() const { return calls_; }
  int id() const { return id_; }
  const std::vector<std::string>& errors() const { return errors_; }
  void clearErrors() { errors_.clear(); }
  void resetStats() { peak_ = liveBytes_; requested_ = 0; }

  std::function<void(const AllocEvent&)> sink;

  // process-wide fault schedule counted over the failable calls of ALL instances
  struct Global {
    bool armed = false;
    long failable = 0, fired = 0, failFrom = 0;
    std::set<long> failSet;
  };
  static Global& global() { static Global g; return g; }
  static void armSingle(long k) { Global& g = global(); g = Global(); g.armed = true; g.failSet = {k}; }
  static void armFrom(long k) { Global& g = global(); g = Global(); g.armed = true; g.failFrom = k; }
  static void armSet(std::set<long> ks) { Global& g = global(); g = Global(); g.armed = true; g.failSet = std::move(ks); }
  static void disarm() { global().armed = false; }
  static void resetGlobalCount() { Global& g = global(); g = Global(); }

 private:
  struct Blk { long blk; size_t size; };
  static long& nextBlk() { static long n = 0; return n; }
  bool shouldFail() {
    Global& g = global();
    g.failable++;
    if (liveBytes_ > (size_t(1) << 29)) return true;  // a runaway document runs out of memory, not the machine
    if (g.armed) {
      if (g.failFrom && g.failable >= g.failFrom) { g.fired++; return true; }
      if (g.failSet.count(g.failable)) { g.fired++; return true; }
    }
    if (failFrom_ && failable_ >= failFrom_) return true;
    return failSet_.count(failable_) != 0;
  }
  void log(const AllocEvent& e) { if (sink) sink(e); }

  int id_;
  std::map<void*, Blk> live_;
  std::set<long> failSet_;
  long failFrom_ = 0;
  long failable_ = 0, fired_ = 0, calls_ = 0;
  size_t liveBytes_ = 0, peak_ = 0, requested_ = 0;
  std::vector<std::string> errors_;
};
