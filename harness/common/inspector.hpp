// Read-only inspector of the library's private memory structures (friend access
// granted under BBLANCHON_ARDUINOJSON_VERIF).  It canonicalises pools, the free
// list, the reachable slot graph and the string nodes of one document.
#pragma once
#include <ArduinoJson.h>

#include <map>
#include <set>
#include <string>
#include <vector>

#include "minijson.hpp"
#include "project.hpp"

struct ArduinoJsonVerifInspector {
  using RM = ArduinoJson::detail::ResourceManager;
  using VD = ArduinoJson::detail::VariantData;
  using VT = ArduinoJson::detail::VariantType;
  using SlotId = ArduinoJson::detail::SlotId;

  static const RM* resources(const ArduinoJson::JsonDocument& d) { return &d.resources_; }
  static const void* poolList(const ArduinoJson::JsonDocument& d) { return &d.resources_.variantPools_; }
  static const void* stringPool(const ArduinoJson::JsonDocument& d) { return &d.resources_.stringPool_; }
  static constexpr unsigned long nullSlot() { return (unsigned long)ArduinoJson::detail::NULL_SLOT; }
  static constexpr unsigned long maxPools() {
    return (unsigned long)ArduinoJson::detail::MemoryPoolList<RM::SlotData>::maxPools;
  }
  static constexpr size_t slotSize() { return RM::slotSize; }

  struct Snapshot {
    std::vector<unsigned long> poolUsage, poolCap;
    unsigned long tableCap = 0;
    bool tableInline = true;
    std::vector<unsigned long> freeList;      // in list order
    std::vector<unsigned long> valueSlots;    // reachable variant slots (elements, keys, values)
    std::vector<unsigned long> extSlots;      // reachable extension slots
    unsigned long ownedStringUsers = 0;       // reachable slots holding a copied or raw string
    std::map<const void*, unsigned long> users;  // string node -> reachable users
    struct Str { const void* node; std::string bytes; unsigned long refs; };
    std::vector<Str> strings;                 // in list order
    std::vector<std::string> problems;        // structural damage found while walking
  };

  static void walk(const RM& rm, const VD* v, Snapshot& s, std::set<unsigned long>& seen, int depth) {
    if (depth > 300) { s.problems.push_back("tree deeper than 300"); return; }
    if (uint8_t(v->type_) & uint8_t(ArduinoJson::detail::VariantTypeBits::OwnedStringBit)) {
      s.ownedStringUsers++;
      s.users[v->content_.asOwnedString]++;
    }
#if ARDUINOJSON_USE_EXTENSIONS
    if (uint8_t(v->type_) & uint8_t(ArduinoJson::detail::VariantTypeBits::ExtensionBit)) {
      unsigned long id = v->content_.asSlotId;
      if (!seen.insert(id).second) s.problems.push_back("extension slot reached twice");
      s.extSlots.push_back(id);
    }
#endif
    if (v->type_ == VT::Array || v->type_ == VT::Object) {
      unsigned long id = v->content_.asCollection.head_, last = nullSlot();
      size_t n = 0;
      while (id != nullSlot()) {
        if (!seen.insert(id).second) { s.problems.push_back("slot reached twice (cycle or sharing)"); break; }
        if (!validId(rm, id)) { s.problems.push_back("link to a slot that does not exist"); break; }
        s.valueSlots.push_back(id);
        const VD* child = rm.getVariant(SlotId(id));
        walk(rm, child, s, seen, depth + 1);
        last = id;
        id = child->next_;
        n++;
      }
      if (last != (unsigned long)v->content_.asCollection.tail_) s.problems.push_back("tail is not the last slot of its list");
      if (v->type_ == VT::Object && n % 2) s.problems.push_back("object list of odd length");
    }
  }

  // The value nodes of one document (root, array elements, member values; not key or extension slots)
  // with their parent node: what a JsonVariant may legitimately point at.  Pointers are only compared.
  static void valueNodes(const ArduinoJson::JsonDocument& d, std::map<const VD*, const VD*>& parent) {
    parent[&d.data_] = nullptr;
    valueNodesBelow(d.resources_, &d.data_, parent, 0);
  }
  static void valueNodesBelow(const RM& rm, const VD* v, std::map<const VD*, const VD*>& parent, int depth) {
    if (depth > 300 || parent.size() > 200000) return;
    if (v->type_ != VT::Array && v->type_ != VT::Object) return;
    bool isObject = v->type_ == VT::Object;
    unsigned long id = v->content_.asCollection.head_;
    size_t n = 0;
    while (id != nullSlot() && validId(rm, id) && n < 200000) {
      const VD* child = rm.getVariant(SlotId(id));
      if (!isObject || n % 2 == 1) {
        if (!parent.emplace(child, v).second) return;  // damaged tree: reported by snapshot()
        valueNodesBelow(rm, child, parent, depth + 1);
      }
      id = child->next_;
      n++;
    }
  }

  static bool validId(const RM& rm, unsigned long id) {
    auto& pl = rm.variantPools_;
    unsigned long pool = id / ARDUINOJSON_POOL_CAPACITY, idx = id % ARDUINOJSON_POOL_CAPACITY;
    return pool < pl.count_ && idx < pl.pools_[pool].usage_;
  }

  static Snapshot snapshot(const ArduinoJson::JsonDocument& d) {
    Snapshot s;
    const RM& rm = d.resources_;
    auto& pl = rm.variantPools_;
    for (unsigned long i = 0; i < pl.count_; i++) {
      s.poolUsage.push_back(pl.pools_[i].usage_);
      s.poolCap.push_back(pl.pools_[i].capacity_);
    }
    s.tableCap = pl.capacity_;
    s.tableInline = pl.pools_ == pl.preallocatedPools_;
    std::set<unsigned long> seen;
    unsigned long id = pl.freeList_;
    while (id != nullSlot()) {
      if (!seen.insert(id).second) { s.problems.push_back("free list cycle"); break; }
      if (!validId(rm, id)) { s.problems.push_back("free list links to a slot that does not exist"); break; }
      s.freeList.push_back(id);
      id = *reinterpret_cast<const SlotId*>(pl.getSlot(SlotId(id)));
    }
    walk(rm, &d.data_, s, seen, 0);
    for (auto n = rm.stringPool_.strings_; n; n = n->next) {
      s.strings.push_back({n, std::string(n->data, n->length), (unsigned long)n->references});
      if (s.strings.size() > 100000) { s.problems.push_back("string list cycle"); break; }
    }
    return s;
  }

  static mj::Value toJson(const Snapshot& s) {
    mj::Value j = mj::Value::mkObj();
    auto arr = [](const std::vector<unsigned long>& v) {
      mj::Value a = mj::Value::mkArr();
      for (auto x : v) a.a.push_back(mj::Value::mkInt((long long)x));
      return a;
    };
    j.set("usage", arr(s.poolUsage));
    j.set("cap", arr(s.poolCap));
    j.set("tableCap", mj::Value::mkInt((long long)s.tableCap));
    j.set("inline", mj::Value::mkBool(s.tableInline));
    j.set("free", arr(s.freeList));
    j.set("slots", arr(s.valueSlots));
    j.set("ext", arr(s.extSlots));
    j.set("owned", mj::Value::mkInt((long long)s.ownedStringUsers));
    mj::Value strs = mj::Value::mkArr();
    for (auto& st : s.strings) {
      mj::Value e = mj::Value::mkObj();
      e.set("s", mj::Value::mkStr(vproj::tokEncode(st.bytes)));
      e.set("refs", mj::Value::mkInt((long long)st.refs));
      auto it = s.users.find(st.node);
      e.set("users", mj::Value::mkInt(it == s.users.end() ? 0 : (long long)it->second));
      strs.a.push_back(e);
    }
    j.set("strings", strs);
    mj::Value pr = mj::Value::mkArr();
    for (auto& p : s.problems) pr.a.push_back(mj::Value::mkStr(p));
    j.set("problems", pr);
    return j;
  }
};
