// Byte-level value nodes of spec/JsonReader.tla / spec/MsgPack.tla:
//   {t, b:[bytes], c:[children]}   t = n T F # s a o m x r
// and the comparison of a document with such a node.
#pragma once
#include <ArduinoJson.h>

#include <cmath>
#include <cstdlib>
#include <cstring>
#include <string>

#include "minijson.hpp"

namespace bv {
using namespace ArduinoJson;

inline std::string bytesOf(const mj::Value& node) {
  std::string s;
  for (auto& x : node.at("b").a) s += char((unsigned char)x.i);
  return s;
}

inline mj::Value mkNode(const char* t, const std::string& bytes) {
  mj::Value v = mj::Value::mkObj();
  v.set("t", mj::Value::mkStr(t));
  mj::Value b = mj::Value::mkArr();
  for (unsigned char c : bytes) b.a.push_back(mj::Value::mkInt(c));
  v.set("b", b);
  v.set("c", mj::Value::mkArr());
  return v;
}

// builds the filter document a node describes
inline void buildFilter(const mj::Value& f, JsonVariant dst) {
  const std::string& t = f.str("t");
  if (t == "T") dst.set(true);
  else if (t == "F") dst.set(false);
  else if (t == "n" || t == "x") dst.set(nullptr);
  else if (t == "s") dst.set(bytesOf(f));
  else if (t == "#") dst.set(strtod(bytesOf(f).c_str(), nullptr));
  else if (t == "a") {
    JsonArray a = dst.to<JsonArray>();
    for (auto& e : f.at("c").a) buildFilter(e, a.add<JsonVariant>());
  } else if (t == "o") {
    JsonObject o = dst.to<JsonObject>();
    for (auto& m : f.at("c").a) {
      JsonVariant member = o[bytesOf(m)].to<JsonVariant>();  // creates the member
      buildFilter(m.at("c").a[0], member);
    }
  }
}

struct NumExpect {
  bool isInt = false, isUnsigned = false, negative = false;
  unsigned long long mag = 0;
  double d = 0;
};

// independent reading of a decimal literal (the spec leaves the value of a literal to Numbers.tla):
// exact for integers that fit 64 bits, strtod otherwise
inline NumExpect numberOf(const std::string& lit, bool nanOn, bool infOn) {
  NumExpect e;
  size_t i = 0;
  if (i < lit.size() && (lit[i] == '-' || lit[i] == '+')) { e.negative = lit[i] == '-'; i++; }
  if (i < lit.size() && nanOn && (lit[i] == 'n' || lit[i] == 'N')) { e.d = NAN; return e; }
  if (i < lit.size() && infOn && (lit[i] == 'i' || lit[i] == 'I')) { e.d = e.negative ? -INFINITY : INFINITY; return e; }
  bool digitsOnly = i < lit.size();
  unsigned __int128 acc = 0;
  bool big = false;
  for (size_t k = i; k < lit.size(); k++) {
    if (lit[k] < '0' || lit[k] > '9') { digitsOnly = false; break; }
    acc = acc * 10 + (unsigned)(lit[k] - '0');
    if (acc > (unsigned __int128)0xFFFFFFFFFFFFFFFFull) big = true;
    if (k - i > 30) { big = true; break; }
  }
  if (digitsOnly && !big) {
    unsigned long long m = (unsigned long long)acc;
    if (!e.negative) { e.isInt = true; e.isUnsigned = true; e.mag = m; e.d = (double)m; return e; }
    if (m <= 9223372036854775808ull) { e.isInt = true; e.mag = m; e.d = -(double)m; return e; }
  }
  std::string s = lit;
  if (s.empty() || s == "." || s == "-." || s == "+.") s = "0";
  e.d = strtod(s.c_str(), nullptr);
  return e;
}

// compares the value v (read through the public API) with the expected node; returns "" or a diagnosis
inline std::string compare(JsonVariantConst v, const mj::Value& exp, bool nanOn, bool infOn, bool numbersLoose,
                           const std::string& path = "$") {
  const std::string& t = exp.str("t");
  if (t == "x") return v.isUnbound() ? "" : path + ": expected unbound";
  if (v.isUnbound()) return path + ": unbound, expected " + t;
  if (t == "n") return v.isNull() ? "" : path + ": expected null";
  if (t == "T" || t == "F")
    return (v.is<bool>() && v.as<bool>() == (t == "T")) ? "" : path + ": expected boolean " + t;
  if (t == "s") {
    if (!v.is<const char*>()) return path + ": expected a string";
    JsonString s = v.as<JsonString>();
    std::string want = bytesOf(exp);
    if (s.size() != want.size() || std::string(s.c_str(), s.size()) != want) return path + ": string bytes differ";
    if (s.c_str()[s.size()] != 0) return path + ": string not NUL-terminated at size()";
    return "";
  }
  if (t == "r") {  // raw bytes (MsgPack bin/ext): re-serialized verbatim
    if (v.isNull() || v.is<const char*>() || v.is<double>() || v.is<bool>() || v.is<JsonArrayConst>() ||
        v.is<JsonObjectConst>())
      return path + ": expected a raw value";
    std::string out;
    serializeMsgPack(v, out);
    if (out != bytesOf(exp)) return path + ": bin/ext value not reproduced byte for byte";
    return "";
  }
  if (t == "i+" || t == "i-") {
    std::string b = bytesOf(exp);
    unsigned long long u = 0;
    for (unsigned char c : b) u = (u << 8) | c;
    if (t == "i+") {
      if (!v.is<unsigned long long>() || v.as<unsigned long long>() != u) return path + ": unsigned integer differs";
    } else {
      if (!v.is<long long>() || v.as<long long>() != (long long)u) return path + ": negative integer differs";
    }
    return "";
  }
  if (t == "f4" || t == "f8") {
    std::string b = bytesOf(exp);
    double want;
    if (t == "f4") {
      uint32_t bits = 0;
      for (unsigned char c : b) bits = (bits << 8) | c;
      float f;
      memcpy(&f, &bits, 4);
      want = (double)f;
    } else {
      uint64_t bits = 0;
      for (unsigned char c : b) bits = (bits << 8) | c;
      memcpy(&want, &bits, 8);
#if !ARDUINOJSON_USE_DOUBLE
      want = (double)(float)want;
#endif
    }
    if (!v.is<double>() || v.is<long long>() || v.is<unsigned long long>()) return path + ": expected a floating-point value";
    double got = v.as<double>();
    if (std::isnan(want)) return std::isnan(got) ? "" : path + ": expected NaN";
#if ARDUINOJSON_USE_DOUBLE
    if (memcmp(&got, &want, 8) != 0 && !(got == 0 && want == 0)) return path + ": floating-point value not exact";
#else
    if (got != want && std::fabs(got - want) > std::fabs(want) * 1.2e-7) return path + ": floating-point value differs";
#endif
    return "";
  }
  if (t == "#") {
    if (!v.is<double>()) return path + ": expected a number";
    if (numbersLoose) return "";
    NumExpect e = numberOf(bytesOf(exp), nanOn, infOn);
    if (e.isInt) {
      if (e.isUnsigned) {
        if (!v.is<unsigned long long>() || v.as<unsigned long long>() != e.mag)
          return path + ": integer literal " + bytesOf(exp) + " not stored exactly";
      } else {
        if (!v.is<long long>() || (unsigned long long)(-(v.as<long long>() + 1)) + 1 != e.mag)
          return path + ": integer literal " + bytesOf(exp) + " not stored exactly";
      }
      return "";
    }
    double got = v.as<double>();
    if (std::isnan(e.d)) return std::isnan(got) ? "" : path + ": expected NaN";
    if (std::isinf(e.d) || e.d == 0) return got == e.d ? "" : path + ": expected " + std::to_string(e.d);
    double rel = std::fabs(got - e.d) / std::fabs(e.d);
    if (!(rel <= 1e-6)) return path + ": number literal " + bytesOf(exp) + " read as " + std::to_string(got);
    if (v.is<long long>() || v.is<unsigned long long>()) {
      // a literal with a fraction or an exponent is a floating-point value (C12 only asks for the value)
    }
    return "";
  }
  if (t == "a") {
    if (!v.is<JsonArrayConst>()) return path + ": expected an array";
    JsonArrayConst a = v.as<JsonArrayConst>();
    const auto& kids = exp.at("c").a;
    if (a.size() != kids.size()) return path + ": array size " + std::to_string(a.size()) + " expected " + std::to_string(kids.size());
    size_t i = 0;
    for (JsonVariantConst e : a) {
      std::string r = compare(e, kids[i], nanOn, infOn, numbersLoose, path + "[" + std::to_string(i) + "]");
      if (!r.empty()) return r;
      i++;
    }
    return "";
  }
  if (t == "o") {
    if (!v.is<JsonObjectConst>()) return path + ": expected an object";
    JsonObjectConst o = v.as<JsonObjectConst>();
    const auto& kids = exp.at("c").a;
    if (o.size() != kids.size()) return path + ": object size " + std::to_string(o.size()) + " expected " + std::to_string(kids.size());
    size_t i = 0;
    for (JsonPairConst kv : o) {
      std::string want = bytesOf(kids[i]);
      if (kv.key().size() != want.size() || std::string(kv.key().c_str(), kv.key().size()) != want)
        return path + ": key " + std::to_string(i) + " differs";
      std::string r = compare(kv.value(), kids[i].at("c").a[0], nanOn, infOn, numbersLoose, path + "." + want);
      if (!r.empty()) return r;
      i++;
    }
    return "";
  }
  return path + ": unknown node kind " + t;
}

}  // namespace bv
