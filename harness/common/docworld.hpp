// The operation interpreter shared by the Document-level harnesses: executes
// one op record of spec/Document.tla on the real library.
#pragma once
#include <ArduinoJson.h>

#include <cstring>
#include <memory>
#include <set>
#include <string>
#include <string_view>
#include <vector>

#include "minijson.hpp"
#include "project.hpp"
#include "verif_allocator.hpp"

namespace dw {
using namespace ArduinoJson;

struct PStep {
  bool isKey;
  std::string key;  // decoded bytes
  size_t idx;
};
using Path = std::vector<PStep>;

struct Op {
  std::string op, tb, sb, k, x;
  int ti = 0, si = 0, r = 0;
  long i = 0;
  Path tp, sp;
  mj::Value v;
};

inline Path parsePath(const mj::Value& a) {
  Path p;
  for (auto& e : a.a) {
    PStep st;
    st.idx = 0;
    long i = (long)e.num("i");
    st.isKey = i < 0;
    st.key = vproj::tokDecode(e.str("k"));
    if (!st.isKey) st.idx = (size_t)i;
    p.push_back(st);
  }
  return p;
}

inline Op parseOp(const mj::Value& o) {
  Op op;
  op.op = o.str("op");
  op.tb = o.str("tb");
  op.sb = o.str("sb");
  op.k = vproj::tokDecode(o.str("k"));
  op.x = o.str("x");
  op.ti = (int)o.num("ti");
  op.si = (int)o.num("si");
  op.r = (int)o.num("r");
  op.i = (long)o.num("i");
  op.tp = parsePath(o.at("tp"));
  op.sp = parsePath(o.at("sp"));
  op.v = o.at("v");
  return op;
}

// strings handed to the library "by address" must outlive every document
inline const char* intern(const std::string& s) {
  static thread_local std::set<std::string> pool;
  return pool.insert(s).first->c_str();
}

// Deterministic source of "kind" choices (which overload / string kind /
// integer type an argument is passed as).  fixed >= 0 forces one kind.
struct Kinds {
  unsigned long long state;
  int fixedString = -1;  // force a string kind for every string argument
  bool preferSet = false;  // never use call forms that have no result (operator=, clear())
  std::string log;
  explicit Kinds(unsigned long long seed) : state(seed * 0x9E3779B97F4A7C15ull + 0x1234567) {}
  unsigned next(unsigned n) {
    state ^= state << 13; state ^= state >> 7; state ^= state << 17;
    return unsigned((state >> 11) % n);
  }
};

enum StrKind { SK_LINKED = 0, SK_CHARPTR, SK_STDSTRING, SK_STRINGVIEW, SK_JSONSTRING_COPIED,
               SK_JSONSTRING_LINKED, SK_CHARARRAY,
#ifdef ARDUINO
               SK_ARDUINO_STRING, SK_FLASH,
#endif
               SK_COUNT };

inline bool hasNul(const std::string& s) { return s.find('\0') != std::string::npos; }

enum StrClass { ANY_KIND = 0, COPYING_KIND, LINKED_KIND };
inline bool isLinkedKind(int kind) { return kind == SK_LINKED || kind == SK_JSONSTRING_LINKED; }

// Calls f(x) with the byte string s presented as one of the string kinds.
// Mutable sources are scribbled over after the call: a copy must not alias them.
// cls restricts the choice to the kinds stored by copy / kept by address (model values "s" / "l");
// a forced kind (C14: every kind in turn) overrides it.
template <class F>
auto withString(const std::string& s, Kinds& ks, F&& f, StrClass cls = ANY_KIND) -> decltype(f((const char*)nullptr)) {
  int kind = ks.fixedString >= 0 ? ks.fixedString : (int)ks.next(SK_COUNT);
  if (ks.fixedString < 0 && cls == LINKED_KIND && !isLinkedKind(kind)) kind = (kind & 1) ? SK_LINKED : SK_JSONSTRING_LINKED;
  if (ks.fixedString < 0 && cls == COPYING_KIND && isLinkedKind(kind)) kind = kind == SK_LINKED ? SK_STDSTRING : SK_CHARPTR;
  if (hasNul(s) && !(kind == SK_STDSTRING || kind == SK_STRINGVIEW || kind == SK_JSONSTRING_COPIED))
    kind = SK_STDSTRING;  // zero-terminated kinds cannot carry a NUL
  if (kind == SK_CHARARRAY && s.size() >= 15) kind = SK_CHARPTR;
  ks.log += char('0' + kind);
  switch (kind) {
    case SK_LINKED:
      return f(intern(s));
    case SK_CHARPTR: {
      std::vector<char> buf(s.begin(), s.end());
      buf.push_back(0);
      char* p = buf.data();
      auto r = f(p);
      memset(buf.data(), '#', buf.size());
      return r;
    }
    case SK_STDSTRING: {
      std::string tmp(s);
      auto r = f(tmp);
      for (auto& c : tmp) c = '#';
      return r;
    }
    case SK_STRINGVIEW: {
      std::vector<char> buf(s.begin(), s.end());
      buf.push_back(0);
      auto r = f(std::string_view(buf.data(), s.size()));
      memset(buf.data(), '#', buf.size());
      return r;
    }
    case SK_JSONSTRING_COPIED: {
      std::vector<char> buf(s.begin(), s.end());
      buf.push_back(0);
      auto r = f(JsonString(buf.data(), s.size(), JsonString::Copied));
      memset(buf.data(), '#', buf.size());
      return r;
    }
    case SK_JSONSTRING_LINKED:
      return f(JsonString(intern(s), s.size(), JsonString::Linked));
#ifdef ARDUINO
    case SK_ARDUINO_STRING: {
      ::String tmp(s.c_str());
      auto r = f(tmp);
      tmp = "################";
      return r;
    }
    case SK_FLASH:
      return f(reinterpret_cast<const __FlashStringHelper*>(convertPtrToFlash(intern(s))));
#endif
    default: {
      char arr[16];
      memset(arr, 0, sizeof arr);
      memcpy(arr, s.data(), s.size());
      auto r = f(arr);
      memset(arr, '#', sizeof arr - 1);
      return r;
    }
  }
}

// Calls f(x) with the model value v (scalar kinds) presented as a C++ value.
template <class F>
bool withScalar(const mj::Value& v, Kinds& ks, F&& f) {
  const std::string& t = v.str("t");
  const std::string s = vproj::tokDecode(v.str("s"));
  if (t == "n") return f(nullptr);
  if (t == "b") return f(s == "true");
  if (t == "i") {
    if (s[0] == '-') {
      long long n = strtoll(s.c_str(), nullptr, 10);
      unsigned k = ks.next(3);
      if (n >= -128 && k == 0) return f((signed char)n);
      if (n >= -2147483647 - 1 && k == 1) return f((int)n);
      if (k == 2) return f((long)n);
      return f(n);
    }
    unsigned long long u = strtoull(s.c_str(), nullptr, 10);
    unsigned k = ks.next(6);
    if (u <= 255 && k == 0) return f((unsigned char)u);
    if (u <= 32767 && k == 1) return f((short)u);
    if (u <= 2147483647ull && k == 2) return f((int)u);
    if (u <= 4294967295ull && k == 3) return f((unsigned int)u);
    if (u <= 9223372036854775807ull && k == 4) return f((long long)u);
    if (u <= 9223372036854775807ull && k == 5) return f((long)u);
    return f(u);
  }
  if (t == "f") {
    double d = strtod(s.c_str(), nullptr);
    if ((double)(float)d == d && ks.next(2) == 0) return f((float)d);
    return f(d);
  }
  if (t == "s") return withString(s, ks, [&](auto&& x) { return f(x); }, COPYING_KIND);
  if (t == "l") return withString(s, ks, [&](auto&& x) { return f(x); }, LINKED_KIND);
  if (t == "r") {
    unsigned k = ks.next(3);
    if (k == 0 && !hasNul(s)) return f(serialized(intern(s)));
    if (k == 1) return f(serialized(std::string(s)));
    return f(serialized(s.data(), s.size()));
  }
  throw std::runtime_error("withScalar: not a scalar: " + t);
}

struct World {
  int nd, nr;
  std::vector<std::unique_ptr<VerifAllocator>> allocs;
  std::vector<std::unique_ptr<JsonDocument>> docs;
  std::vector<JsonVariant> refs;

  // defaultAllocator: the documents use the process-wide DefaultAllocator (C20: shared by all threads)
  World(int ndocs, int nrefs, bool defaultAllocator = false) : nd(ndocs), nr(nrefs) {
    for (int d = 0; d < nd; d++) allocs.emplace_back(new VerifAllocator(d + 1));
    for (int d = 0; d < nd; d++)
      docs.emplace_back(defaultAllocator ? new JsonDocument() : new JsonDocument(allocs[d].get()));
    refs.resize(nr);
  }
  ~World() {
    docs.clear();  // documents first, then their allocators
  }
  JsonDocument& doc(int id) { return *docs.at(id - 1); }
  JsonVariant& ref(int id) { return refs.at(id - 1); }
};

constexpr int MAXD = 2;

// walks the operator[] chain and calls f on the final proxy / reference
template <int D, class U, class F>
void walk(U&& up, const Path& p, Kinds& ks, F& f) {
  if (p.size() == (size_t)D) { f(up); return; }
  if constexpr (D < MAXD) {
    const PStep& st = p[D];
    if (st.isKey) {
      unsigned kind = hasNul(st.key) ? 1 : ks.next(3);
      ks.log += char('a' + kind);
      if (kind == 0) {
        walk<D + 1>(up[intern(st.key)], p, ks, f);
      } else if (kind == 1) {
        std::string tmp(st.key);
        walk<D + 1>(up[tmp], p, ks, f);
      } else {
        std::vector<char> buf(st.key.begin(), st.key.end());
        buf.push_back(0);
        char* kp = buf.data();
        walk<D + 1>(up[kp], p, ks, f);
      }
    } else {
      walk<D + 1>(up[st.idx], p, ks, f);
    }
  } else {
    throw std::runtime_error("path too long for this harness");
  }
}

template <class F>
void withTarget(World& w, const std::string& tb, int ti, const Path& tp, Kinds& ks, F&& f) {
  if (tb == "d") walk<0>(w.doc(ti), tp, ks, f);
  else walk<0>(w.ref(ti), tp, ks, f);
}

inline const char* errName(DeserializationError e) {
  switch (e.code()) {
    case DeserializationError::Ok: return "Ok";
    case DeserializationError::EmptyInput: return "EmptyInput";
    case DeserializationError::IncompleteInput: return "IncompleteInput";
    case DeserializationError::InvalidInput: return "InvalidInput";
    case DeserializationError::NoMemory: return "NoMemory";
    case DeserializationError::TooDeep: return "TooDeep";
  }
  return "?";
}

// A small, independent JSON -> MessagePack transcoder for the texts of "deser" operations (plain JSON without
// escapes): the same value can then reach the document through deserializeMsgPack.  Returns false for anything
// it does not handle (the caller falls back to deserializeJson).  A repeated key keeps the position of its
// first occurrence and the value of its last, as deserializeJson does.
struct JsonToMsgPack {
  const std::string& t;
  size_t p = 0;
  explicit JsonToMsgPack(const std::string& text) : t(text) {}
  void ws() { while (p < t.size() && (t[p] == ' ' || t[p] == '\n' || t[p] == '\t' || t[p] == '\r')) p++; }
  static void be(std::string& o, unsigned long long v, int n) { for (int i = n - 1; i >= 0; i--) o += char((v >> (8 * i)) & 255); }
  static void str(std::string& o, const std::string& s) {
    if (s.size() < 32) o += char(0xA0 + s.size());
    else if (s.size() < 256) { o += char(0xD9); o += char(s.size()); }
    else { o += char(0xDA); be(o, s.size(), 2); }
    o += s;
  }
  bool string(std::string& s) {
    if (p >= t.size() || t[p] != '"') return false;
    p++;
    while (p < t.size() && t[p] != '"') { if (t[p] == '\\') return false; s += t[p++]; }
    if (p >= t.size()) return false;
    p++;
    return true;
  }
  bool value(std::string& o, int depth = 0) {
    ws();
    if (p >= t.size() || depth > 20) return false;
    char c = t[p];
    if (t.compare(p, 4, "null") == 0) { p += 4; o += char(0xC0); return true; }
    if (t.compare(p, 4, "true") == 0) { p += 4; o += char(0xC3); return true; }
    if (t.compare(p, 5, "false") == 0) { p += 5; o += char(0xC2); return true; }
    if (c == '"') { std::string s; if (!string(s)) return false; str(o, s); return true; }
    if (c == '[') {
      p++;
      std::vector<std::string> items;
      ws();
      if (p < t.size() && t[p] == ']') p++;
      else for (;;) {
        std::string e;
        if (!value(e, depth + 1)) return false;
        items.push_back(e);
        ws();
        if (p < t.size() && t[p] == ',') { p++; continue; }
        if (p < t.size() && t[p] == ']') { p++; break; }
        return false;
      }
      if (items.size() < 16) o += char(0x90 + items.size()); else { o += char(0xDC); be(o, items.size(), 2); }
      for (auto& e : items) o += e;
      return true;
    }
    if (c == '{') {
      p++;
      std::vector<std::pair<std::string, std::string>> ms;
      ws();
      if (p < t.size() && t[p] == '}') p++;
      else for (;;) {
        ws();
        std::string k, e;
        if (!string(k)) return false;
        ws();
        if (p >= t.size() || t[p] != ':') return false;
        p++;
        if (!value(e, depth + 1)) return false;
        bool found = false;
        for (auto& m : ms) if (m.first == k) { m.second = e; found = true; }
        if (!found) ms.emplace_back(k, e);
        ws();
        if (p < t.size() && t[p] == ',') { p++; continue; }
        if (p < t.size() && t[p] == '}') { p++; break; }
        return false;
      }
      if (ms.size() < 16) o += char(0x80 + ms.size()); else { o += char(0xDE); be(o, ms.size(), 2); }
      for (auto& m : ms) { str(o, m.first); o += m.second; }
      return true;
    }
    // numbers: integers exactly, anything else as float 64
    size_t q = p;
    while (q < t.size() && (isdigit((unsigned char)t[q]) || t[q] == '-' || t[q] == '+' || t[q] == '.' || t[q] == 'e' || t[q] == 'E')) q++;
    std::string lit = t.substr(p, q - p);
    if (lit.empty()) return false;
    p = q;
    bool integral = lit.find_first_of(".eE") == std::string::npos;
    if (integral && lit[0] == '-') {
      if (lit.size() > 19) return false;
      long long v = strtoll(lit.c_str(), nullptr, 10);
      if (v >= -32) o += char(v & 255);
      else { o += char(0xD3); be(o, (unsigned long long)v, 8); }
    } else if (integral) {
      if (lit.size() > 19) return false;
      unsigned long long v = strtoull(lit.c_str(), nullptr, 10);
      if (v < 128) o += char(v);
      else if (v < 65536) { o += char(0xCD); be(o, v, 2); }
      else { o += char(0xCF); be(o, v, 8); }
    } else {
      double d = strtod(lit.c_str(), nullptr);
      unsigned long long bits;
      memcpy(&bits, &d, 8);
      o += char(0xCB);
      be(o, bits, 8);
    }
    return true;
  }
  bool run(std::string& out) { if (!value(out)) return false; ws(); return p == t.size(); }
};

template <class T> struct IsDoc { static const bool value = false; };
template <> struct IsDoc<JsonDocument> { static const bool value = true; };

// Executes one operation, returns the model-level return string.
inline std::string exec(World& w, const Op& o, Kinds& ks) {
  std::string ret = "void";
  const std::string& t = o.v.has("t") ? o.v.str("t") : std::string();
  if (o.op == "set") {
    withTarget(w, o.tb, o.ti, o.tp, ks, [&](auto&& T) {
      using TT = std::decay_t<decltype(T)>;
      bool r;
      if constexpr (IsDoc<TT>::value) {
        JsonVariant root = T.template as<JsonVariant>();
        r = withScalar(o.v, ks, [&](auto&& x) { return root.set(x); });
      } else {
        unsigned how = (std::is_same<TT, JsonVariant>::value || ks.preferSet) ? 0 : ks.next(2);
        if (how == 0 || t == "n") {
          r = withScalar(o.v, ks, [&](auto&& x) { return T.set(x); });
        } else {
          if constexpr (!std::is_same<TT, JsonVariant>::value)
            r = withScalar(o.v, ks, [&](auto&& x) { T = x; return true; });
          ret = "skip";  // operator= has no result to compare
        }
      }
      if (ret != "skip") ret = r ? "true" : "false";
    });
  } else if (o.op == "to") {
    withTarget(w, o.tb, o.ti, o.tp, ks, [&](auto&& T) {
      using TT = std::decay_t<decltype(T)>;
      JsonVariant res;
      if constexpr (IsDoc<TT>::value) {
        JsonVariant root = T.template as<JsonVariant>();
        if (t == "a") res = root.template to<JsonArray>();
        else if (t == "o") res = root.template to<JsonObject>();
        else res = root.template to<JsonVariant>();
      } else {
        // an array / object that is emptied in place: JsonArray::clear() / JsonObject::clear()
        bool viaHandle = o.r == 0 && !ks.preferSet && ((t == "a" && T.template is<JsonArray>()) || (t == "o" && T.template is<JsonObject>())) &&
                         ks.next(2) == 0;
        if (viaHandle && t == "a") { T.template as<JsonArray>().clear(); ret = "skip"; }
        else if (viaHandle) { T.template as<JsonObject>().clear(); ret = "skip"; }
        else if (t == "a") res = T.template to<JsonArray>();
        else if (t == "o") res = T.template to<JsonObject>();
        else if (o.r == 0 && !ks.preferSet && ks.next(2) == 0) { T.clear(); ret = "skip"; }
        else res = T.template to<JsonVariant>();
      }
      if (ret != "skip") ret = res.isUnbound() ? "unbound" : "bound";
      if (o.r) w.ref(o.r) = res;
    });
  } else if (o.op == "add") {
    withTarget(w, o.tb, o.ti, o.tp, ks, [&](auto&& T) {
      bool r;
      if (T.template is<JsonArray>() && ks.next(2) == 0) {  // through the typed handle
        JsonArray a = T.template as<JsonArray>();
        ks.log += 'A';
        r = withScalar(o.v, ks, [&](auto&& x) { return a.add(x); });
      } else {
        r = withScalar(o.v, ks, [&](auto&& x) { return T.add(x); });
      }
      ret = r ? "true" : "false";
    });
  } else if (o.op == "addnew") {
    withTarget(w, o.tb, o.ti, o.tp, ks, [&](auto&& T) {
      JsonVariant res;
      if (T.template is<JsonArray>() && ks.next(2) == 0) {  // through the typed handle
        JsonArray a = T.template as<JsonArray>();
        ks.log += 'A';
        if (t == "a") res = a.add<JsonArray>();
        else if (t == "o") res = a.add<JsonObject>();
        else res = a.add<JsonVariant>();
      } else if (t == "a") res = T.template add<JsonArray>();
      else if (t == "o") res = T.template add<JsonObject>();
      else res = T.template add<JsonVariant>();
      ret = res.isUnbound() ? "unbound" : "bound";
      if (o.r) w.ref(o.r) = res;
    });
  } else if (o.op == "bind") {
    withTarget(w, o.tb, o.ti, o.tp, ks, [&](auto&& T) {
      JsonVariant res = T.template as<JsonVariant>();
      ret = res.isUnbound() ? "unbound" : "bound";
      w.ref(o.r) = res;
    });
  } else if (o.op == "rmidx") {
    withTarget(w, o.tb, o.ti, o.tp, ks, [&](auto&& T) {
      unsigned how = T.template is<JsonArray>() ? ks.next(3) : 0;
      if (how == 1) {  // typed handle, by index
        T.template as<JsonArray>().remove(size_t(o.i));
      } else if (how == 2 && size_t(o.i) < T.size()) {  // typed handle, by iterator
        JsonArray a = T.template as<JsonArray>();
        auto it = a.begin();
        for (long j = 0; j < o.i; j++) ++it;
        a.remove(it);
      } else {
        T.remove(size_t(o.i));
      }
    });
  } else if (o.op == "rmkey") {
    withTarget(w, o.tb, o.ti, o.tp, ks, [&](auto&& T) {
      unsigned how = T.template is<JsonObject>() ? ks.next(3) : 0;
      if (how == 1) {  // typed handle, by key
        JsonObject obj = T.template as<JsonObject>();
        withString(o.k, ks, [&](auto&& key) { obj.remove(key); return true; });
      } else if (how == 2) {  // typed handle, by iterator
        JsonObject obj = T.template as<JsonObject>();
        for (auto it = obj.begin(); it != obj.end(); ++it) {
          JsonString k = it->key();
          if (k.size() == o.k.size() && memcmp(k.c_str(), o.k.data(), o.k.size()) == 0) { obj.remove(it); break; }
        }
      } else {
        withString(o.k, ks, [&](auto&& key) { T.remove(key); return true; });
      }
    });
  } else if (o.op == "copy") {
    JsonVariantConst src;
    withTarget(w, o.sb, o.si, o.sp, ks, [&](auto&& S) { src = S.template as<JsonVariantConst>(); });
    withTarget(w, o.tb, o.ti, o.tp, ks, [&](auto&& T) {
      using TT = std::decay_t<decltype(T)>;
      bool r;
      if constexpr (IsDoc<TT>::value) {
        JsonVariant root = T.template as<JsonVariant>();
        r = root.set(src);
      } else {
        r = T.set(src);
      }
      ret = r ? "true" : "false";
    });
  } else if (o.op == "setprefix") {
    // a sized view pointing into the document's own string storage (first o.i bytes of the source string)
    JsonString src;
    withTarget(w, o.sb, o.si, o.sp, ks, [&](auto&& S) { src = S.template as<JsonString>(); });
    if (!src.c_str() || (size_t)o.i > src.size()) throw std::runtime_error("setprefix: source is not a long enough string");
    withTarget(w, o.tb, o.ti, o.tp, ks, [&](auto&& T) {
      bool r;
      unsigned how = ks.next(3);
      if (how == 0) r = T.set(std::string_view(src.c_str(), (size_t)o.i));
      else if (how == 1) r = T.set(JsonString(src.c_str(), (size_t)o.i, JsonString::Copied));
      else r = T.add(std::string_view(src.c_str(), (size_t)o.i)), T.remove(T.size() - 1), r = T.set(JsonString(src.c_str(), (size_t)o.i, JsonString::Copied));
      ret = r ? "true" : "false";
    });
  } else if (o.op == "docset") {
    JsonVariantConst src;
    withTarget(w, o.sb, o.si, o.sp, ks, [&](auto&& S) { src = S.template as<JsonVariantConst>(); });
    ret = w.doc(o.ti).set(src) ? "true" : "false";
  } else if (o.op == "docsetv") {
    JsonDocument& d = w.doc(o.ti);
    bool r = withScalar(o.v, ks, [&](auto&& x) { return d.set(x); });
    ret = r ? "true" : "false";
  } else if (o.op == "docto") {
    JsonDocument& d = w.doc(o.ti);
    JsonVariant res;
    if (t == "a") res = d.to<JsonArray>();
    else if (t == "o") res = d.to<JsonObject>();
    else res = d.to<JsonVariant>();
    ret = res.isUnbound() ? "unbound" : "bound";
    if (o.r) w.ref(o.r) = res;
  } else if (o.op == "docclear") {
    w.doc(o.ti).clear();
  } else if (o.op == "shrink") {
    w.doc(o.ti).shrinkToFit();
  } else if (o.op == "assign") {
    if (o.ti != o.si && ks.next(2) == 0) {  // through the copy constructor (which takes the source's allocator)
      JsonDocument tmp(w.doc(o.si));
      w.doc(o.ti) = std::move(tmp);
    } else {
      w.doc(o.ti) = w.doc(o.si);
    }
  } else if (o.op == "move") {
    if (o.ti != o.si && ks.next(2) == 0) {  // through the move constructor
      JsonDocument tmp(std::move(w.doc(o.si)));
      w.doc(o.ti) = std::move(tmp);
    } else {
      w.doc(o.ti) = std::move(w.doc(o.si));
    }
  } else if (o.op == "swap") {
    swap(w.doc(o.ti), w.doc(o.si));
  } else if (o.op == "deser") {
    withTarget(w, o.tb, o.ti, o.tp, ks, [&](auto&& T) {
      DeserializationError e;
      unsigned how = ks.next(5);
      std::string packed;
      if (how >= 3 && !JsonToMsgPack(o.x).run(packed)) how = 2;
      if (how == 0) e = deserializeJson(T, intern(o.x));
      else if (how == 1) e = deserializeJson(T, std::string(o.x));
      else if (how == 2) e = deserializeJson(T, o.x.data(), o.x.size());
      else if (how == 3) { ks.log += 'M'; e = deserializeMsgPack(T, packed); }   // the same value as MessagePack
      else { ks.log += 'M'; e = deserializeMsgPack(T, packed.data(), packed.size()); }
      ret = errName(e);
    });
  } else {
    throw std::runtime_error("unknown op " + o.op);
  }
  return ret;
}

// what spec/Document.tla calls Obs(S); refs whose model status is "dead" must
// not be touched, so the caller says which ones are
inline mj::Value observe(World& w, const std::vector<std::string>& refStatus) {
  mj::Value obs = mj::Value::mkObj();
  mj::Value docs = mj::Value::mkArr();
  for (int d = 1; d <= w.nd; d++) {
    const JsonDocument& doc = w.doc(d);
    mj::Value e = mj::Value::mkObj();
    std::string ser;
    size_t n = serializeJson(doc, ser);
    e.set("root", vproj::project(doc.as<JsonVariantConst>()));
    e.set("ovf", mj::Value::mkBool(doc.overflowed()));
    e.set("ser", mj::Value::mkStr(vproj::tokEncodeLoose(ser)));
    if (n != ser.size() || measureJson(doc) != n) e.set("bad", mj::Value::mkStr("serializeJson count"));
    docs.a.push_back(e);
  }
  obs.set("docs", docs);
  mj::Value refs = mj::Value::mkArr();
  for (int r = 1; r <= w.nr; r++) {
    mj::Value e = mj::Value::mkObj();
    const std::string& st = refStatus.at(r - 1);
    if (st == "dead") {
      e.set("st", mj::Value::mkStr("dead"));
      e.set("v", vproj::node("x", ""));
    } else {
      JsonVariant v = w.ref(r);
      e.set("st", mj::Value::mkStr(v.isUnbound() ? "unbound" : "live"));
      e.set("v", vproj::project(v));
    }
    refs.a.push_back(e);
  }
  obs.set("refs", refs);
  return obs;
}

}  // namespace dw
