// Document!Legal evaluated on the CONCRETE documents.
//
// TLC generates behaviours whose every operation satisfies Legal (spec/Document.tla: no use of a dead
// reference, no copy between overlapping values, a string source for "setprefix") in the state the
// FAULT-FREE prefix produces.  When allocation failures are injected into the prefix as well (the "chaos"
// schedules of doc_fault.cpp) the documents differ from that state: an add() that failed leaves every
// later index one lower, a reference whose element was never created stays unbound, a remove() then hits
// the element a live reference designates.  The later operations of the behaviour may then be ones the
// specification never generates: `ref["a"] = doc[0]` with ref == doc[0] is the overlapping assignment of
// the known finding C04 alias-overlap (unbounded recursion without any allocation failure), a reference
// to a removed element is a dangling pointer by the library's documented contract.  Executing them says
// nothing about allocation failures, so the chaos driver asks legalNow() before every operation and ends
// the behaviour at the first operation that is outside the quantifier in the state actually reached.
//
// Only pointers are compared: a dangling reference is never dereferenced.
#pragma once
#include <map>
#include <string>

#include "docworld.hpp"
#include "inspector.hpp"

namespace dw {

struct ConcreteTree {
  using VD = ArduinoJson::detail::VariantData;
  std::map<const VD*, const VD*> parent;  // every value node of every document -> its parent node
  std::map<const VD*, int> docOf;

  explicit ConcreteTree(World& w) {
    for (int d = 1; d <= w.nd; d++) {
      std::map<const VD*, const VD*> p;
      ArduinoJsonVerifInspector::valueNodes(w.doc(d), p);
      for (auto& e : p) { parent.insert(e); docOf[e.first] = d; }
    }
  }
  bool ancestorOrSelf(const VD* a, const VD* n) const {
    for (int guard = 0; n && guard < 100000; guard++) {
      if (n == a) return true;
      auto it = parent.find(n);
      if (it == parent.end()) return false;
      n = it->second;
    }
    return false;
  }
};

struct Resolved {
  bool dead = false;     // the base is a reference that designates no value node of its document any more
  bool bound = false;    // the base designates a value
  bool full = false;     // every step of the path exists
  const ArduinoJson::detail::VariantData* node = nullptr;  // deepest existing node along the path
  JsonVariantConst value;                                   // the value at the full path (unbound unless full)
};

inline Resolved resolveNow(World& w, const ConcreteTree& t, const std::string& base, int id, const Path& p) {
  using ArduinoJson::detail::VariantAttorney;
  Resolved r;
  JsonVariantConst cur;
  if (base == "d") {
    cur = static_cast<const JsonDocument&>(w.doc(id)).as<JsonVariantConst>();
  } else {
    JsonVariant& ref = w.ref(id);
    const auto* data = VariantAttorney::getData(ref);
    if (!data) return r;  // unbound: every operation through it is a no-op
    auto it = t.docOf.find(data);
    if (it == t.docOf.end() ||
        VariantAttorney::getResourceManager(ref) != ArduinoJsonVerifInspector::resources(w.doc(it->second))) {
      r.dead = true;
      return r;
    }
    cur = ref;
  }
  r.bound = true;
  r.node = VariantAttorney::getData(cur);
  size_t done = 0;
  for (; done < p.size(); done++) {
    JsonVariantConst next = p[done].isKey ? cur[p[done].key] : cur[p[done].idx];
    if (!VariantAttorney::getData(next)) break;
    cur = next;
    r.node = VariantAttorney::getData(cur);
  }
  r.full = done == p.size();
  if (r.full) r.value = cur;
  return r;
}

// Document!Legal(S, o) for the state the documents are actually in.
inline bool legalNow(World& w, const Op& o, std::string& why) {
  ConcreteTree t(w);
  bool usesT = o.tb == "d" || o.tb == "r", usesS = o.sb == "d" || o.sb == "r";
  Resolved T, S;
  if (usesT) T = resolveNow(w, t, o.tb, o.ti, o.tp);
  if (usesS) S = resolveNow(w, t, o.sb, o.si, o.sp);
  if (T.dead || S.dead) { why = "dead-ref"; return false; }
  bool srcExists = usesS && S.bound && S.full;
  if (o.op == "copy" || o.op == "setprefix") {
    if (o.op == "setprefix") {
      JsonString s = srcExists ? S.value.as<JsonString>() : JsonString();
      if (!s.c_str() || (size_t)o.i > s.size()) { why = "prefix-source"; return false; }
    }
    if (srcExists && T.bound) {
      if (t.ancestorOrSelf(S.node, T.node) || (T.full && t.ancestorOrSelf(T.node, S.node))) {
        why = "alias";
        return false;
      }
    }
  } else if (o.op == "docset") {
    if (srcExists) {
      auto it = t.docOf.find(S.node);
      if (it != t.docOf.end() && it->second == o.ti) { why = "alias"; return false; }
    }
  }
  return true;
}

}  // namespace dw
