// Receiver of the guarded allocator-layer events emitted by /repo/src under
// BBLANCHON_ARDUINOJSON_VERIF (see the "verif hooks" commit).  Exactly one
// translation unit per harness includes this header.
#pragma once
#include <functional>

enum VerifEventKind {
  EV_SLOT_ALLOC_FREE = 1,   // a = slot id taken from the free list
  EV_SLOT_ALLOC_LAST = 2,   // a = slot id taken from the last pool
  EV_POOL_ADD = 3,          // a = pool count after, b = capacity requested for the new pool
  EV_TABLE_GROW = 4,        // a = new pool-table capacity
  EV_SLOT_FREE = 5,         // a = slot id pushed on the free list
  EV_POOLS_CLEAR = 6,
  EV_POOLS_SHRINK = 7,      // a = pool count, b = table capacity after
  EV_POOLS_SWAP = 8,        // self, a = the two lists
  EV_POOLS_MOVE = 9,        // self = destination, a = source
  EV_STR_ADD = 10,          // a = node, b = length
  EV_STR_HIT = 11,          // a = node, b = references after
  EV_STR_DEREF = 12,        // a = node, b = references after
  EV_STR_BUILDER_HIT = 13,  // self = ResourceManager, a = node, b = references after
  EV_STR_CLEAR = 14,
  EV_STR_SWAP = 15,
};

struct VerifHookEvent {
  int kind;
  const void* self;
  unsigned long a, b;
};

inline std::function<void(const VerifHookEvent&)>& verifHookSink() {
  static std::function<void(const VerifHookEvent&)> sink;
  return sink;
}

#ifdef BBLANCHON_ARDUINOJSON_VERIF
extern "C" void arduinojson_verif_event(int kind, const void* self, unsigned long a, unsigned long b) {
  auto& s = verifHookSink();
  if (s) s(VerifHookEvent{kind, self, a, b});
}
#endif
