// Minimal independent JSON reader/writer used by the conformance harnesses.
// It deliberately does not use ArduinoJson (the library under test).
#pragma once
#include <cstdint>
#include <cstdio>
#include <cstdlib>
#include <cstring>
#include <map>
#include <stdexcept>
#include <string>
#include <utility>
#include <vector>

namespace mj {

struct Value {
  enum Type { Null, Bool, Int, Str, Arr, Obj } type = Null;
  bool b = false;
  long long i = 0;
  std::string s;
  std::vector<Value> a;
  std::vector<std::pair<std::string, Value>> o;

  Value() {}
  static Value mkBool(bool v) { Value x; x.type = Bool; x.b = v; return x; }
  static Value mkInt(long long v) { Value x; x.type = Int; x.i = v; return x; }
  static Value mkStr(const std::string& v) { Value x; x.type = Str; x.s = v; return x; }
  static Value mkArr() { Value x; x.type = Arr; return x; }
  static Value mkObj() { Value x; x.type = Obj; return x; }

  Value& set(const std::string& k, const Value& v) {
    for (auto& kv : o) if (kv.first == k) { kv.second = v; return *this; }
    o.emplace_back(k, v);
    return *this;
  }
  const Value* find(const std::string& k) const {
    for (auto& kv : o) if (kv.first == k) return &kv.second;
    return nullptr;
  }
  const Value& at(const std::string& k) const {
    auto p = find(k);
    if (!p) throw std::runtime_error("minijson: missing key " + k);
    return *p;
  }
  const std::string& str(const std::string& k) const { return at(k).s; }
  long long num(const std::string& k) const { return at(k).i; }
  bool boolean(const std::string& k) const { return at(k).b; }
  bool has(const std::string& k) const { return find(k) != nullptr; }
};

// order-insensitive on object keys, order-sensitive on arrays
inline bool equal(const Value& x, const Value& y) {
  if (x.type != y.type) return false;
  switch (x.type) {
    case Value::Null: return true;
    case Value::Bool: return x.b == y.b;
    case Value::Int: return x.i == y.i;
    case Value::Str: return x.s == y.s;
    case Value::Arr:
      if (x.a.size() != y.a.size()) return false;
      for (size_t k = 0; k < x.a.size(); k++) if (!equal(x.a[k], y.a[k])) return false;
      return true;
    case Value::Obj:
      if (x.o.size() != y.o.size()) return false;
      for (auto& kv : x.o) {
        auto p = y.find(kv.first);
        if (!p || !equal(kv.second, *p)) return false;
      }
      return true;
  }
  return false;
}

inline void escape(const std::string& s, std::string& out) {
  out += '"';
  for (unsigned char c : s) {
    switch (c) {
      case '"': out += "\\\""; break;
      case '\\': out += "\\\\"; break;
      case '\n': out += "\\n"; break;
      case '\r': out += "\\r"; break;
      case '\t': out += "\\t"; break;
      default:
        if (c < 0x20 || c >= 0x7f) {
          char buf[8];
          snprintf(buf, sizeof buf, "\\u%04x", c);
          out += buf;
        } else
          out += char(c);
    }
  }
  out += '"';
}

inline void dump(const Value& v, std::string& out) {
  switch (v.type) {
    case Value::Null: out += "null"; break;
    case Value::Bool: out += v.b ? "true" : "false"; break;
    case Value::Int: out += std::to_string(v.i); break;
    case Value::Str: escape(v.s, out); break;
    case Value::Arr: {
      out += '[';
      bool first = true;
      for (auto& e : v.a) { if (!first) out += ','; first = false; dump(e, out); }
      out += ']';
      break;
    }
    case Value::Obj: {
      out += '{';
      bool first = true;
      for (auto& kv : v.o) {
        if (!first) out += ',';
        first = false;
        escape(kv.first, out);
        out += ':';
        dump(kv.second, out);
      }
      out += '}';
      break;
    }
  }
}
inline std::string dump(const Value& v) { std::string s; dump(v, s); return s; }

class Parser {
 public:
  Parser(const char* p, const char* end) : p_(p), end_(end) {}
  Value parse() {
    Value v = value();
    ws();
    return v;
  }
  const char* pos() const { return p_; }

 private:
  const char* p_;
  const char* end_;
  [[noreturn]] void fail(const char* m) { throw std::runtime_error(std::string("minijson: ") + m); }
  void ws() { while (p_ < end_ && (*p_ == ' ' || *p_ == '\n' || *p_ == '\r' || *p_ == '\t')) p_++; }
  char peek() { return p_ < end_ ? *p_ : '\0'; }
  Value value() {
    ws();
    char c = peek();
    if (c == '{') return object();
    if (c == '[') return array();
    if (c == '"') return Value::mkStr(string());
    if (c == 't') { expect("true"); return Value::mkBool(true); }
    if (c == 'f') { expect("false"); return Value::mkBool(false); }
    if (c == 'n') { expect("null"); return Value(); }
    if (c == '-' || (c >= '0' && c <= '9')) {
      char* e;
      long long n = strtoll(p_, &e, 10);
      if (e == p_) fail("bad number");
      p_ = e;
      if (p_ < end_ && (*p_ == '.' || *p_ == 'e' || *p_ == 'E')) fail("non-integer number");
      return Value::mkInt(n);
    }
    fail("unexpected character");
  }
  void expect(const char* w) {
    size_t n = strlen(w);
    if (size_t(end_ - p_) < n || memcmp(p_, w, n) != 0) fail("bad literal");
    p_ += n;
  }
  std::string string() {
    std::string out;
    p_++;
    while (true) {
      if (p_ >= end_) fail("unterminated string");
      unsigned char c = (unsigned char)*p_++;
      if (c == '"') break;
      if (c == '\\') {
        if (p_ >= end_) fail("bad escape");
        char e = *p_++;
        switch (e) {
          case '"': out += '"'; break;
          case '\\': out += '\\'; break;
          case '/': out += '/'; break;
          case 'b': out += '\b'; break;
          case 'f': out += '\f'; break;
          case 'n': out += '\n'; break;
          case 'r': out += '\r'; break;
          case 't': out += '\t'; break;
          case 'u': {
            if (end_ - p_ < 4) fail("bad \\u");
            unsigned cp = 0;
            for (int k = 0; k < 4; k++) {
              char h = *p_++;
              cp <<= 4;
              if (h >= '0' && h <= '9') cp |= unsigned(h - '0');
              else if (h >= 'a' && h <= 'f') cp |= unsigned(h - 'a' + 10);
              else if (h >= 'A' && h <= 'F') cp |= unsigned(h - 'A' + 10);
              else fail("bad hex");
            }
            // the harness protocol only uses \u00XX for raw bytes
            if (cp < 0x100) out += char(cp);
            else if (cp < 0x800) { out += char(0xC0 | (cp >> 6)); out += char(0x80 | (cp & 0x3F)); }
            else { out += char(0xE0 | (cp >> 12)); out += char(0x80 | ((cp >> 6) & 0x3F)); out += char(0x80 | (cp & 0x3F)); }
            break;
          }
          default: fail("unknown escape");
        }
      } else
        out += char(c);
    }
    return out;
  }
  Value array() {
    Value v = Value::mkArr();
    p_++;
    ws();
    if (peek() == ']') { p_++; return v; }
    while (true) {
      v.a.push_back(value());
      ws();
      if (peek() == ',') { p_++; continue; }
      if (peek() == ']') { p_++; break; }
      fail("expected , or ]");
    }
    return v;
  }
  Value object() {
    Value v = Value::mkObj();
    p_++;
    ws();
    if (peek() == '}') { p_++; return v; }
    while (true) {
      ws();
      if (peek() != '"') fail("expected key");
      std::string k = string();
      ws();
      if (peek() != ':') fail("expected :");
      p_++;
      v.o.emplace_back(k, value());
      ws();
      if (peek() == ',') { p_++; continue; }
      if (peek() == '}') { p_++; break; }
      fail("expected , or }");
    }
    return v;
  }
};

inline Value parse(const std::string& s) {
  Parser p(s.data(), s.data() + s.size());
  return p.parse();
}

}  // namespace mj
