// I->S for the serializers (C02, C08, C07): builds each document of the input file through the API,
// serializes it to every kind of destination and with every buffer capacity, performs the round trips
// and logs the outputs for spec/WriterTrace.tla.
//
// input line : {"cls":"plain"|"jsonraw"|"mpraw", "v":<node>}
// usage: writer_record <docs.ndjson> <out.ndjson> <seed>
#include <cstdio>
#include <fstream>
#include <sstream>
#include <utility>
#include <type_traits>
#include <signal.h>
#include <unistd.h>
#include <quadmath.h>

#include "common/verif_allocator.hpp"
#include "common/bytevalue.hpp"

using namespace ArduinoJson;

static volatile long g_line = -1;
static void onCrash(const char* what) {
  char buf[128];
  int n = snprintf(buf, sizeof buf, "\nCRASH idx=%ld what=%s\n", g_line, what);
  if (write(1, buf, (size_t)n)) {}
}
extern "C" void __asan_on_error() { onCrash("asan"); }
static void onSignal(int sig) { onCrash(sig == SIGSEGV ? "sigsegv" : sig == SIGALRM ? "timeout" : "sigabrt"); _exit(3); }

struct FloatObs { int k; double x; };

static unsigned long long be64(const std::string& b) {
  unsigned long long u = 0;
  for (unsigned char c : b) u = (u << 8) | c;
  return u;
}

// builds the value described by node into dst (through the public API only)
static void build(const mj::Value& nd, JsonVariant dst, std::vector<FloatObs>& floats, unsigned& salt) {
  const std::string& t = nd.str("t");
  std::string b = bv::bytesOf(nd);
  salt = salt * 1103515245u + 12345u;
  if (t == "n") dst.set(nullptr);
  else if (t == "T") dst.set(true);
  else if (t == "F") dst.set(false);
  else if (t == "i+") dst.set((JsonUInt)be64(b));        // unsigned long when ARDUINOJSON_USE_LONG_LONG=0
  else if (t == "i-") dst.set((JsonInteger)be64(b));
  else if (t == "f4") {
    uint32_t bits = (uint32_t)be64(b);
    float f;
    memcpy(&f, &bits, 4);
    dst.set(f);
    floats.push_back({4, (double)f});
  } else if (t == "f8") {
    uint64_t bits = be64(b);
    double d;
    memcpy(&d, &bits, 8);
    dst.set(d);
    floats.push_back({8, d});
  } else if (t == "s") {
    if ((salt >> 8) % 3 == 0) dst.set(JsonString(b.data(), b.size(), JsonString::Copied));
    else dst.set(b);
  } else if (t == "r") {
    // bin / ext values go in through the API (MsgPackBinary / MsgPackExtension build the header from the size)
    // two times out of three, verbatim through serialized() otherwise; the generator writes the header the
    // API is expected to choose, so the expected bytes are the node's bytes either way
    unsigned char h = b.empty() ? 0 : (unsigned char)b[0];
    bool api = (salt >> 8) % 3 != 0;
    size_t hl = 0;       // header length before the payload (for ext: including the type byte)
    int type = -1;       // extension type, -1 for bin
    if (h == 0xC4 && b.size() >= 2) hl = 2;
    else if (h == 0xC5 && b.size() >= 3) hl = 3;
    else if (h == 0xC6 && b.size() >= 5) hl = 5;
    else if (h >= 0xD4 && h <= 0xD8 && b.size() >= 2) { hl = 2; type = (unsigned char)b[1]; }
    else if (h == 0xC7 && b.size() >= 3) { hl = 3; type = (unsigned char)b[2]; }
    else if (h == 0xC8 && b.size() >= 4) { hl = 4; type = (unsigned char)b[3]; }
    else if (h == 0xC9 && b.size() >= 6) { hl = 6; type = (unsigned char)b[5]; }
    if (api && hl && type < 0) dst.set(MsgPackBinary(b.data() + hl, b.size() - hl));
    else if (api && hl) dst.set(MsgPackExtension((int8_t)type, b.data() + hl, b.size() - hl));
    else dst.set(serialized(b));
  } else if (t == "a") {
    JsonArray a = dst.to<JsonArray>();
    for (auto& e : nd.at("c").a) build(e, a.add<JsonVariant>(), floats, salt);
  } else if (t == "o") {
    JsonObject o = dst.to<JsonObject>();
    for (auto& m : nd.at("c").a) {
      JsonVariant member = o[bv::bytesOf(m)].to<JsonVariant>();
      build(m.at("c").a[0], member, floats, salt);
    }
  }
}

struct CustomWriter {
  std::string out;
  size_t write(uint8_t c) { out += char(c); return 1; }
  size_t write(const uint8_t* s, size_t n) { out.append(reinterpret_cast<const char*>(s), n); return n; }
};

#ifdef ARDUINO
class FakePrint : public Print {
 public:
  size_t write(uint8_t c) override { out += char(c); return 1; }
  size_t write(const uint8_t* s, size_t n) override { out.append(reinterpret_cast<const char*>(s), n); return n; }
  std::string out;
};
#endif

enum Which { COMPACT, PRETTY, MSGPACK };

template <class Dst>
static size_t ser(Which w, const JsonDocument& d, Dst& dst) {
  return w == COMPACT ? serializeJson(d, dst) : w == PRETTY ? serializeJsonPretty(d, dst) : serializeMsgPack(d, dst);
}
static size_t serBuf(Which w, const JsonDocument& d, void* p, size_t n) {
  return w == COMPACT ? serializeJson(d, p, n) : w == PRETTY ? serializeJsonPretty(d, p, n) : serializeMsgPack(d, p, n);
}
static size_t measure(Which w, const JsonDocument& d) {
  return w == COMPACT ? measureJson(d) : w == PRETTY ? measureJsonPretty(d) : measureMsgPack(d);
}

static mj::Value bytesJson(const std::string& s) {
  mj::Value a = mj::Value::mkArr();
  for (unsigned char c : s) a.a.push_back(mj::Value::mkInt(c));
  return a;
}

// every destination kind must receive the same bytes and return the same count
static bool kindsAgree(Which w, const JsonDocument& d, const std::string& ref) {
  bool ok = true;
  {
    std::ostringstream os;
    size_t n = ser(w, d, os);
    ok = ok && os.str() == ref && n == ref.size();
  }
  {
    CustomWriter cw;
    size_t n = ser(w, d, cw);
    ok = ok && cw.out == ref && n == ref.size();
  }
  {  // a std::ostream that cannot seek (a pipe, a terminal, a hand-written streambuf): tellp() is -1
    struct SinkBuf : std::streambuf {
      std::string out;
      int_type overflow(int_type c) override { if (c != traits_type::eof()) out += char(c); return c; }
      std::streamsize xsputn(const char* s, std::streamsize n) override { out.append(s, (size_t)n); return n; }
    } sb;
    std::ostream os(&sb);
    size_t n = ser(w, d, os);
    ok = ok && sb.out == ref && n == ref.size();
  }
  {  // a std::ostream that already holds something: only the new bytes count
    std::ostringstream os;
    os << "prefix";
    size_t n = ser(w, d, os);
    ok = ok && os.str() == "prefix" + ref && n == ref.size();
  }
  {
    std::vector<char> big(ref.size() + 16, '\x7e');
    size_t n = serBuf(w, d, big.data(), big.size());
    ok = ok && n == ref.size() && std::string(big.data(), n) == ref;
  }
  if (ref.size() < 250 && w != MSGPACK) {
    char arr[256];
    memset(arr, 0x7e, sizeof arr);
    size_t n = w == COMPACT ? serializeJson(d, arr) : serializeJsonPretty(d, arr);
    ok = ok && n == ref.size() && std::string(arr, n) == ref && arr[n] == 0;
  }
  if (w == COMPACT) {  // std::ostream << document
    std::ostringstream os;
    os << d;
    ok = ok && os.str() == ref;
    if (d.as<JsonVariantConst>().is<JsonArrayConst>() || d.as<JsonVariantConst>().is<JsonObjectConst>())
      ok = ok && d.as<std::string>() == ref;
  }
#ifdef ARDUINO
  if (w != MSGPACK && ref.find('\0') == std::string::npos && ref.size() < 1000) {  // the fake String holds 1024 bytes
    ::String s;
    size_t n = ser(w, d, s);
    ok = ok && n == ref.size() && ref == s.c_str();
  }
  {
    FakePrint pr;
    size_t n = ser(w, d, pr);
    ok = ok && pr.out == ref && n == ref.size();
  }
#endif
  return ok;
}

// one destination of `cap` bytes laid out as [G guard bytes][cap bytes][G guard bytes], all preset to 0xEE
static const size_t GUARD = 8;
static mj::Value judgeBuffer(Which w, const std::string& ref, size_t cap, size_t n, const unsigned char* buf, const char* dst) {
  const size_t G = GUARD;
  size_t len = ref.size();
  size_t m = cap < len ? cap : len;
  bool prefix = n <= cap && memcmp(buf + G, ref.data(), m) == 0;
  bool guard = true;
  for (size_t i = 0; i < G; i++) if (buf[i] != 0xEE || buf[G + cap + i] != 0xEE) guard = false;
  // bytes of the buffer beyond what was produced (and beyond a terminator) must be untouched
  bool nul = len < cap && buf[G + len] == 0;
  for (size_t i = m + (nul ? 1 : 0); i < cap; i++) if (buf[G + i] != 0xEE) { if (w == MSGPACK || i != len) guard = false; }
  mj::Value e = mj::Value::mkObj();
  e.set("cap", mj::Value::mkInt((long long)cap));
  e.set("ret", mj::Value::mkInt((long long)n));
  e.set("prefix", mj::Value::mkBool(prefix));
  e.set("nul", mj::Value::mkBool(nul));
  e.set("guard", mj::Value::mkBool(guard));
  e.set("dst", mj::Value::mkStr(dst));
  return e;
}

// fixed-size array destinations (the char (&)[N] overloads), N known at compile time
static const size_t MAXARR = 72;
template <size_t N, class TChar>
static mj::Value arrayCase(Which w, const JsonDocument& d, const std::string& ref) {
  struct { unsigned char g1[GUARD]; TChar arr[N]; unsigned char g2[GUARD]; } s;
  static_assert(sizeof(s) == N + 2 * GUARD, "layout");
  memset(&s, 0xEE, sizeof s);
  size_t n = w == COMPACT ? serializeJson(d, s.arr) : w == PRETTY ? serializeJsonPretty(d, s.arr) : serializeMsgPack(d, s.arr);
  return judgeBuffer(w, ref, N, n, reinterpret_cast<const unsigned char*>(&s), sizeof(TChar) == 1 && std::is_same<TChar, char>::value ? "char[N]" : std::is_signed<TChar>::value ? "signed char[N]" : "unsigned char[N]");
}
typedef mj::Value (*ArrayFn)(Which, const JsonDocument&, const std::string&);
template <class TChar, size_t... I>
static const ArrayFn* arrayTable(std::index_sequence<I...>) {
  static const ArrayFn t[] = {&arrayCase<I + 1, TChar>...};
  return t;
}

static mj::Value bufferLaw(Which w, const JsonDocument& d, const std::string& ref, unsigned salt) {
  mj::Value caps = mj::Value::mkArr();
  std::vector<size_t> cs;
  size_t len = ref.size();
  if (len <= 48) for (size_t c = 0; c <= len + 2; c++) cs.push_back(c);
  else {
    for (size_t c : {size_t(0), size_t(1), size_t(2), len / 2, len - 2, len - 1, len, len + 1, len + 2}) cs.push_back(c);
    for (int k = 0; k < 6; k++) { salt = salt * 1103515245u + 12345u; cs.push_back((salt >> 8) % (len + 1)); }
  }
  static const ArrayFn* tc = arrayTable<char>(std::make_index_sequence<MAXARR>());
  static const ArrayFn* tu = arrayTable<unsigned char>(std::make_index_sequence<MAXARR>());
  static const ArrayFn* ts = arrayTable<signed char>(std::make_index_sequence<MAXARR>());
  for (size_t cap : cs) {
    const size_t G = GUARD;
    std::vector<unsigned char> buf(cap + 2 * G, 0xEE);
    size_t n = serBuf(w, d, buf.data() + G, cap);
    caps.a.push_back(judgeBuffer(w, ref, cap, n, buf.data(), "ptr"));
    if (cap >= 1 && cap <= MAXARR) {
      caps.a.push_back(tc[cap - 1](w, d, ref));
      if (cap + 3 >= len) {  // the other character types around the fit boundary
        caps.a.push_back(tu[cap - 1](w, d, ref));
        caps.a.push_back(ts[cap - 1](w, d, ref));
      }
    }
  }
  return caps;
}

// error of the printed literal, relative to max(1,|x|), in units of 1e-12 (capped)
static long long printedError(const FloatObs& f) {
  JsonDocument d;
  if (f.k == 4) d.set((float)f.x); else d.set(f.x);
  std::string s;
  serializeJson(d, s);
  __float128 lit = strtoflt128(s.c_str(), nullptr);
  __float128 x = f.x;
  __float128 e = lit > x ? lit - x : x - lit;
  __float128 scale = fabsq(x) > 1 ? fabsq(x) : 1;
  __float128 r = e / scale * 1e12Q;
  if (!(r < 2e9Q)) return 2000000000LL;   // TLC integers are 32 bit: cap (also catches NaN)
  return (long long)ceilq(r);
}

// how a floating-point value is encoded: the facts WriterTrace.tla judges
static mj::Value floatEncoding(const FloatObs& f) {
  JsonDocument d;
  if (f.k == 4) d.set((float)f.x); else d.set(f.x);
  std::string s;
  serializeMsgPack(d, s);
  const char* enc = "bad";
  bool same = false;
  unsigned char c = s.empty() ? 0 : (unsigned char)s[0];
  if (c == 0xCA && s.size() == 5) {
    uint32_t bits = (uint32_t)be64(s.substr(1));
    float g;
    memcpy(&g, &bits, 4);
    enc = "f32";
    same = std::isnan(f.x) ? std::isnan(g) : ((double)g == f.x && std::signbit(g) == std::signbit(f.x));
  } else if (c == 0xCB && s.size() == 9) {
    uint64_t bits = be64(s.substr(1));
    double g;
    memcpy(&g, &bits, 8);
    enc = "f64";
    same = std::isnan(f.x) ? std::isnan(g) : memcmp(&g, &f.x, 8) == 0;
  } else if (!s.empty()) {
    // an integer encoding, decoded here (not by the library): value = sign * magnitude
    bool isInt = true, neg = false;
    unsigned long long mag = 0;
    size_t n = s.size();
    if (c <= 0x7f && n == 1) mag = c;
    else if (c >= 0xe0 && n == 1) { neg = true; mag = 256 - c; }
    else if (c >= 0xcc && c <= 0xcf && n == 1 + (size_t(1) << (c - 0xcc))) mag = be64(s.substr(1));
    else if (c >= 0xd0 && c <= 0xd3 && n == 1 + (size_t(1) << (c - 0xd0))) {
      unsigned w = 8u << (c - 0xd0);
      unsigned long long raw = be64(s.substr(1));
      if (raw >> (w - 1)) { neg = true; mag = (w == 64 ? 0ULL : (1ULL << w)) - raw; } else mag = raw;
    } else isInt = false;
    if (isInt) {
      enc = "int";
      double ax = std::fabs(f.x);
      same = ax < 18446744073709551616.0 && (unsigned long long)ax == mag && (mag == 0 || neg == (f.x < 0));
    }
  }
  bool finite = !std::isnan(f.x) && !std::isinf(f.x);
  bool integral = finite && f.x == std::floor(f.x);
  mj::Value e = mj::Value::mkObj();
  e.set("k", mj::Value::mkInt(f.k));
  e.set("enc", mj::Value::mkStr(enc));
  e.set("same", mj::Value::mkBool(same));
  e.set("integral", mj::Value::mkBool(integral));
  e.set("i64", mj::Value::mkBool(integral && f.x >= -9223372036854775808.0 && f.x < 9223372036854775808.0));
  e.set("f32", mj::Value::mkBool(finite && (double)(float)f.x == f.x));
  e.set("u64", mj::Value::mkBool(integral && f.x >= 0 && f.x < 18446744073709551616.0));
  return e;
}

// equivalence after a JSON round trip: structure, strings and integers exact, floats within C12
static bool equivalent(JsonVariantConst a, JsonVariantConst b) {
  if (a.is<JsonArrayConst>()) {
    if (!b.is<JsonArrayConst>() || a.size() != b.size()) return false;
    for (size_t i = 0; i < a.size(); i++) if (!equivalent(a[i], b[i])) return false;
    return true;
  }
  if (a.is<JsonObjectConst>()) {
    if (!b.is<JsonObjectConst>() || a.size() != b.size()) return false;
    auto ib = b.as<JsonObjectConst>().begin();
    for (JsonPairConst kv : a.as<JsonObjectConst>()) {
      if (!(kv.key() == ib->key()) || !equivalent(kv.value(), ib->value())) return false;
      ++ib;
    }
    return true;
  }
  if (a.isNull()) return b.isNull();
  if (a.is<bool>()) return b.is<bool>() && a.as<bool>() == b.as<bool>();
  if (a.is<const char*>()) return b.is<const char*>() && a.as<JsonString>() == b.as<JsonString>();
  if (a.is<long long>()) return b.is<long long>() && a.as<long long>() == b.as<long long>();
  if (a.is<unsigned long long>()) return b.is<unsigned long long>() && a.as<unsigned long long>() == b.as<unsigned long long>();
  if (a.is<double>()) {
    double x = a.as<double>();
    if (std::isnan(x) || std::isinf(x)) return b.isNull();  // printed as null
    if (std::fabs(x) > 1e300 || (x != 0 && std::fabs(x) < 1e-300)) return b.is<double>();  // outside C12's range
    if (!b.is<double>()) return false;
    double y = b.as<double>();
    // printing (1e-9 of max(1,|x|), 1e-6 for a float) then parsing (1e-13 / 1e-6 relative)
    double tol = 2.1e-6 * (std::fabs(x) > 1 ? std::fabs(x) : 1);
    return std::fabs(x - y) <= tol;
  }
  return false;
}

int main(int argc, char** argv) {
  if (argc < 4) { fprintf(stderr, "usage: writer_record docs out seed\n"); return 2; }
  signal(SIGSEGV, onSignal);
  signal(SIGABRT, onSignal);
  signal(SIGALRM, onSignal);
  std::ifstream in(argv[1]);
  std::ofstream out(argv[2]);
  unsigned seed = (unsigned)strtoul(argv[3], nullptr, 10);
  std::string line;
  long idx = 0;
  while (std::getline(in, line)) {
    if (line.empty()) continue;
    g_line = idx;
    alarm(60);
    mj::Value c = mj::parse(line);
    const std::string cls = c.str("cls");
    VerifAllocator alloc(1);
    mj::Value ev = mj::Value::mkObj();
    if (cls == "bulk") {
      // sizes on both sides of the 16-bit header boundaries: too large for TLC's sequences, so only the
      // header and the sizes are logged, the payload is compared here
      size_t n = (size_t)c.num("n");
      const std::string kind = c.str("kind");
      std::string linkedStore;  // outlives doc
      JsonDocument doc(&alloc);
      std::string payloadMp, payloadJson;
      if (kind == "s" || kind == "sl") {
        std::string s(n, 'z');
        s[n / 2] = 'y';
        // "sl": kept by address (const char*), the only way to a string longer than the length type holds
        if (kind == "sl") { linkedStore = s; doc.set(linkedStore.c_str()); }
        else doc.set(s);
        payloadMp = s;
        payloadJson = "\"" + s + "\"";
      } else if (kind == "a") {
        for (size_t i = 0; i < n; i++) { doc.add((int)(i % 100)); payloadMp += char(i % 100); payloadJson += (i ? "," : "[") + std::to_string(i % 100); }
        payloadJson += "]";
      } else {
        // built by deserializing MessagePack written here: adding 65536 members through operator[]
        // is quadratic (each one looks the key up), and so is interning 65536 distinct keys: the
        // members all carry the same key, which MessagePack maps allow
        for (size_t i = 0; i < n; i++) {
          std::string k = "k";
          payloadMp += char(0xA0 + k.size()) + k + "\xc3";
          payloadJson += (i ? ",\"" : "{\"") + k + "\":true";
        }
        payloadJson += "}";
        std::string src = std::string("\xdf") + char(n >> 24) + char(n >> 16) + char(n >> 8) + char(n) + payloadMp;
        if (deserializeMsgPack(doc, src) != DeserializationError::Ok) doc.clear();
      }
      bool built = !doc.overflowed();
      std::string json, mp;
      size_t nj = serializeJson(doc, json), nm = serializeMsgPack(doc, mp);
      size_t hl = mp.size() - payloadMp.size();
      ev.set("cls", mj::Value::mkStr(cls));
      ev.set("kind", mj::Value::mkStr(kind));
      ev.set("n", mj::Value::mkInt((long long)n));
      ev.set("built", mj::Value::mkBool(built));
      ev.set("mphead", bytesJson(mp.size() >= payloadMp.size() ? mp.substr(0, hl) : std::string()));
      ev.set("mppayload", mj::Value::mkBool(mp.size() >= payloadMp.size() && mp.substr(hl) == payloadMp));
      ev.set("jsonok", mj::Value::mkBool(json == payloadJson));
      ev.set("counts", mj::Value::mkBool(nj == json.size() && nm == mp.size() && measureJson(doc) == nj && measureMsgPack(doc) == nm));
      JsonDocument back(&alloc);
      std::string again;
      bool rt = deserializeMsgPack(back, mp) == DeserializationError::Ok;
      serializeMsgPack(back, again);
      ev.set("rtmp", mj::Value::mkBool(rt && again == mp));
      out << mj::dump(ev) << "\n";
      idx++;
      continue;
    }
    {
      JsonDocument doc(&alloc);
      std::vector<FloatObs> floats;
      unsigned salt = seed * 2654435761u + (unsigned)idx;
      build(c.at("v"), doc.to<JsonVariant>(), floats, salt);
      if (doc.overflowed()) { fprintf(stderr, "document %ld overflowed while being built\n", idx); return 2; }
      std::string json, pretty, mp;
      size_t nj = serializeJson(doc, json), np = serializeJsonPretty(doc, pretty), nm = serializeMsgPack(doc, mp);
      ev.set("cls", mj::Value::mkStr(cls));
      ev.set("v", c.at("v"));
      ev.set("json", bytesJson(json));
      ev.set("pretty", bytesJson(pretty));
      ev.set("mp", bytesJson(mp));
      ev.set("jsoncount", mj::Value::mkInt((long long)nj));
      ev.set("prettycount", mj::Value::mkInt((long long)np));
      ev.set("mpcount", mj::Value::mkInt((long long)nm));
      ev.set("jsonmeasure", mj::Value::mkInt((long long)measure(COMPACT, doc)));
      ev.set("prettymeasure", mj::Value::mkInt((long long)measure(PRETTY, doc)));
      ev.set("mpmeasure", mj::Value::mkInt((long long)measure(MSGPACK, doc)));
      ev.set("jsonkinds", mj::Value::mkBool(kindsAgree(COMPACT, doc, json) && kindsAgree(PRETTY, doc, pretty)));
      ev.set("mpkinds", mj::Value::mkBool(kindsAgree(MSGPACK, doc, mp)));
      ev.set("jsoncaps", bufferLaw(COMPACT, doc, json, salt));
      ev.set("prettycaps", bufferLaw(PRETTY, doc, pretty, salt + 1));
      ev.set("mpcaps", bufferLaw(MSGPACK, doc, mp, salt + 2));
      mj::Value ferr = mj::Value::mkArr();
      mj::Value fenc = mj::Value::mkArr();
      for (auto& f : floats) {
        if (!std::isnan(f.x) && !std::isinf(f.x)) {
          mj::Value e = mj::Value::mkObj();
          e.set("k", mj::Value::mkInt(ARDUINOJSON_USE_DOUBLE ? f.k : 4));   // single-precision storage: float bound
          e.set("err", mj::Value::mkInt(printedError(f)));
          ferr.a.push_back(e);
        }
        fenc.a.push_back(floatEncoding(f));
      }
      ev.set("ferr", ferr);
      ev.set("fenc", fenc);
      // round trips (C07); raw values are excluded as the property says
      std::string rtmp = mp;
      bool rtjsonok = true, convok = true;
      if (cls != "jsonraw") {
        JsonDocument d2(&alloc);
        // the round trip goes through a caller-supplied buffer every other time (both directions)
        bool viaBuffer = (salt >> 9) % 2 == 0;
        std::vector<unsigned char> b1(mp.size() + 8, 0x7e);
        DeserializationError e2 = DeserializationError::Ok;
        if (viaBuffer) {
          size_t n1 = serializeMsgPack(doc, b1.data(), b1.size());
          e2 = deserializeMsgPack(d2, b1.data(), n1, DeserializationOption::NestingLimit(255));
        } else {
          e2 = deserializeMsgPack(d2, mp, DeserializationOption::NestingLimit(255));
        }
        if (e2 != DeserializationError::Ok) rtmp = "\xc1";
        else if (viaBuffer) {
          std::vector<unsigned char> b2(mp.size() + 8, 0x7e);
          size_t n2 = serializeMsgPack(d2, b2.data(), b2.size());
          rtmp.assign(reinterpret_cast<const char*>(b2.data()), n2);
        } else { rtmp.clear(); serializeMsgPack(d2, rtmp); }
      }
      if (cls == "plain") {
        JsonDocument d3(&alloc);
        rtjsonok = deserializeJson(d3, json, DeserializationOption::NestingLimit(255)) == DeserializationError::Ok &&
                   equivalent(doc.as<JsonVariantConst>(), d3.as<JsonVariantConst>());
        JsonDocument da(&alloc), db(&alloc);
        std::string mpa, mpb;
        convok = deserializeJson(da, json, DeserializationOption::NestingLimit(255)) == DeserializationError::Ok;
        if ((salt >> 10) % 2 == 0) {  // through a char array
          std::vector<char> cb(mp.size() + 64, 0x7e);
          size_t nn = serializeMsgPack(da, cb.data(), cb.size());
          mpa.assign(cb.data(), nn);
        } else
        serializeMsgPack(da, mpa);
        convok = convok && deserializeMsgPack(db, mpa, DeserializationOption::NestingLimit(255)) == DeserializationError::Ok;
        serializeMsgPack(db, mpb);
        convok = convok && mpa == mpb && da == db;
      }
      ev.set("rtmp", bytesJson(rtmp));
      ev.set("rtjsonok", mj::Value::mkBool(rtjsonok));
      ev.set("convok", mj::Value::mkBool(convok));
    }
    if (alloc.liveBlocks() != 0 || !alloc.errors().empty()) { printf("LEDGER idx=%ld\n", idx); return 1; }
    out << mj::dump(ev) << "\n";
    idx++;
  }
  printf("SUMMARY docs=%ld\n", idx);
  return 0;
}
