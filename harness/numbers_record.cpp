// C12 / C13: numeric conversions measured on the real library, one ndjson event per case, decided by
// spec/NumbersTrace.tla.
//   numbers_record conv  <table.json> <out>          typed extraction of every landmark in every storage
//   numbers_record parse <shapes.ndjson> <out>       literals parsed in a document / through as<T>() on a string
//   numbers_record print <out> <stride> <from> <to>  printing of float bit patterns from..to step stride, and doubles
//   numbers_record sweep <out> <store> <from> <to>   all 32-bit patterns of a storage kind: behaviour-class breakpoints
//   numbers_record copyarray <out>
#include <cmath>
#include <cstdio>
#include <fstream>
#include <sstream>
#include <string>
#include <quadmath.h>

#include "common/verif_allocator.hpp"
#include "common/minijson.hpp"

using namespace ArduinoJson;

static std::string i128str(__int128 v) {
  if (v == 0) return "0";
  bool neg = v < 0;
  unsigned __int128 u = neg ? (unsigned __int128)(-(v + 1)) + 1 : (unsigned __int128)v;
  std::string s;
  while (u) { s.insert(s.begin(), char('0' + (int)(u % 10))); u /= 10; }
  return neg ? "-" + s : s;
}
template <class T> static std::string istr(T v) { return i128str((__int128)v); }

template <class T>
static void one(JsonVariantConst v, std::string& as, std::string& is, bool& orok) {
  T a = v.as<T>();
  bool b = v.is<T>();
  as += (as.empty() ? "\"" : ",\"") + istr(a) + "\"";
  is += (is.empty() ? "" : ",") + std::string(b ? "true" : "false");
  T def = T(7);
  T o = v | def;
  if (o != (b ? a : def)) orok = false;
}

static std::string bitsOf(double d) {
  unsigned long long u;
  memcpy(&u, &d, 8);
  std::string s = "[";
  for (int i = 7; i >= 0; i--) s += std::to_string((int)((u >> (8 * i)) & 255)) + (i ? "," : "]");
  return s;
}
static std::string bitsOfF(float f) {
  unsigned u;
  memcpy(&u, &f, 4);
  std::string s = "[";
  for (int i = 3; i >= 0; i--) s += std::to_string((int)((u >> (8 * i)) & 255)) + (i ? "," : "]");
  return s;
}

static void setStored(JsonDocument& doc, const std::string& store, const std::string& lit) {
  if (store == "i32") doc.set((int32_t)strtoll(lit.c_str(), nullptr, 10));
  else if (store == "u32") doc.set((uint32_t)strtoull(lit.c_str(), nullptr, 10));
  else if (store == "i64") doc.set((int64_t)strtoll(lit.c_str(), nullptr, 10));
  else if (store == "u64") doc.set((uint64_t)strtoull(lit.c_str(), nullptr, 10));
  else if (store == "f32") doc.set(strtof(lit.c_str(), nullptr));
  else if (store == "f64") doc.set(strtod(lit.c_str(), nullptr));
  else doc.set(lit);
}

static int conv(const char* tablePath, const char* outPath) {
  std::ifstream in(tablePath);
  std::stringstream ss;
  ss << in.rdbuf();
  mj::Value T = mj::parse(ss.str());
  std::ofstream out(outPath);
  out << "{\"e\":\"types\",\"types\":" << mj::dump(T.at("types")) << "}\n";
  long n = 0;
  for (auto& row : T.at("rows").a) {
    JsonDocument doc;
    setStored(doc, row.str("store"), row.str("lit"));
    JsonVariantConst v = doc.as<JsonVariantConst>();
    std::string as, is;
    bool orok = true;
    one<int8_t>(v, as, is, orok); one<uint8_t>(v, as, is, orok); one<int16_t>(v, as, is, orok); one<uint16_t>(v, as, is, orok);
    one<int32_t>(v, as, is, orok); one<uint32_t>(v, as, is, orok); one<int64_t>(v, as, is, orok); one<uint64_t>(v, as, is, orok);
    one<long>(v, as, is, orok); one<unsigned long>(v, as, is, orok);
    out << "{\"e\":\"conv\",\"row\":" << mj::dump(row) << ",\"as\":[" << as << "],\"is\":[" << is << "],\"orok\":"
        << (orok ? "true" : "false") << ",\"dbl\":" << bitsOf(v.as<double>()) << ",\"flt\":" << bitsOfF(v.as<float>())
        << ",\"isdbl\":" << (v.is<double>() ? "true" : "false") << ",\"isflt\":" << (v.is<float>() ? "true" : "false") << "}\n";
    n++;
  }
  printf("SUMMARY rows=%ld\n", n);
  return 0;
}

// relative error of got against the exact value of the literal, in units of 1e-13 (capped at 2e9:
// TLC integers are 32 bit)
static long long relErr13(__float128 exact, double got) {
  if (exact == 0) return got == 0 ? 0 : 2000000000LL;
  __float128 e = fabsq((__float128)got - exact) / fabsq(exact) * 1e13Q;
  if (!(e < 2e9Q)) return 2000000000LL;
  return (long long)ceilq(e);
}

static int parse(const char* shapesPath, const char* outPath) {
  std::ifstream in(shapesPath);
  std::ofstream out(outPath);
  std::string line;
  long n = 0;
  while (std::getline(in, line)) {
    if (line.empty()) continue;
    mj::Value s = mj::parse(line);
    const std::string lit = s.str("lit");
    __float128 exact = strtoflt128(lit.c_str(), nullptr);
    int mag = exact == 0 ? -99999 : isinfq(exact) ? 99999 : (int)floorq(log10q(fabsq(exact)));
    // in a document (literals of at most 63 characters), and through as<T>() on a string of any length
    for (int via = 0; via < 2; via++) {
      if (via == 0 && s.boolean("long")) continue;
      JsonDocument doc;
      std::string code = "Ok";
      if (via == 0) code = deserializeJson(doc, lit).c_str(); else doc.set(lit);
      JsonVariantConst v = doc.as<JsonVariantConst>();
      std::string cls, ival = "";
      double d = v.as<double>();
      if (via == 0 && v.is<unsigned long long>()) { cls = "int"; ival = istr(v.as<unsigned long long>()); }
      else if (via == 0 && v.is<long long>()) { cls = "int"; ival = istr(v.as<long long>()); }
      else if (std::isnan(d)) cls = "nan";
      else if (std::isinf(d)) cls = "inf";
      else if (d == 0) cls = "zero";
      else cls = "finite";
      // through a string, also the widest integers
      std::string asU = via == 1 ? istr(v.as<unsigned long long>()) : "", asI = via == 1 ? istr(v.as<long long>()) : "";
      bool signok = !(d != 0 && !std::isnan(d) && (std::signbit(d) != s.boolean("neg")));
      out << "{\"e\":\"parse\",\"shape\":" << line << ",\"via\":\"" << (via ? "string" : "doc") << "\",\"code\":\"" << code
          << "\",\"cls\":\"" << cls << "\",\"ival\":\"" << ival << "\",\"err13\":" << (cls == "finite" || cls == "int" ? relErr13(exact, d) : 0)
          << ",\"mag\":" << mag << ",\"gotmag\":" << ((cls == "finite" || cls == "int") && d != 0 ? (int)std::floor(std::log10(std::fabs(d))) : -99999)
          << ",\"signok\":" << (signok ? "true" : "false") << ",\"asu\":\"" << asU << "\",\"asi\":\"" << asI
          << "\",\"prec\":\"" << (ARDUINOJSON_USE_DOUBLE ? "double" : "float") << "\"}\n";
      n++;
    }
  }
  printf("SUMMARY rows=%ld\n", n);
  return 0;
}

// error of the printed literal relative to max(1,|x|), in units of 1e-12
template <class F>
static long long printErr12(F x, std::string* text = nullptr) {
  JsonDocument d;
  d.set(x);
  std::string s;
  serializeJson(d, s);
  if (text) *text = s;
  __float128 lit = strtoflt128(s.c_str(), nullptr);
  __float128 xv = x;
  __float128 scale = fabsq(xv) > 1 ? fabsq(xv) : 1;
  __float128 e = fabsq(lit - xv) / scale * 1e12Q;
  if (!(e < 2e9Q)) return 2000000000LL;
  return (long long)ceilq(e);
}

static int print(const char* outPath, unsigned long stride, unsigned long from, unsigned long to) {
  std::ofstream out(outPath);
  // floats: maximal runs of bit patterns on which the printed literal is within 1e-6 * max(1,|x|)
  long long runStart = -1;
  bool runOk = true;
  unsigned long checked = 0, worst = 0;
  auto flush = [&](unsigned long endExclusive) {
    if (runStart >= 0)
      out << "{\"e\":\"frun\",\"from\":" << (runStart >> 16) << ",\"fromlo\":" << (runStart & 65535) << ",\"to\":" << (endExclusive >> 16)
          << ",\"tolo\":" << (endExclusive & 65535) << ",\"ok\":" << (runOk ? "true" : "false") << "}\n";
  };
  unsigned long last = from;
  for (unsigned long p = from; p <= to; p += stride) {
    unsigned u = (unsigned)p;
    float f;
    memcpy(&f, &u, 4);
    last = p;
    if (std::isnan(f) || std::isinf(f)) continue;
    long long e = printErr12(f);
    bool ok = e <= 1000000;
    checked++;
    if ((unsigned long)e > worst) worst = (unsigned long)e;
    if (runStart < 0) { runStart = (long long)p; runOk = ok; }
    else if (ok != runOk) { flush(p); runStart = (long long)p; runOk = ok; }
  }
  flush(last + 1);
  out << "{\"e\":\"fsummary\",\"checked\":" << (checked >> 16) << ",\"checkedlo\":" << (checked & 65535) << ",\"worst12\":" << (worst > 2000000000UL ? 2000000000UL : worst) << "}\n";
  // integers print digit-exact: every power of ten and of two, their neighbours, digit groups that start with
  // zeros (d * 10^k + r), seeded 64-bit patterns; the oracle is the C library's conversion
  if (from == 0) {
    std::vector<unsigned long long> us;
    unsigned long long p10 = 1;
    for (int k = 0; k < 20; k++) {
      for (unsigned long long d : {1ULL, 5ULL, 17ULL, 18ULL})
        for (unsigned long long r : {0ULL, 1ULL, 7ULL, 123456789ULL, 900000001ULL}) {
          unsigned long long v = d * p10 + r;
          if (v / p10 == d || k == 0) us.push_back(v);
        }
      us.push_back(p10 - 1);
      if (k < 19) p10 *= 10;
    }
    for (int k = 0; k < 64; k++) { us.push_back(1ULL << k); us.push_back((1ULL << k) - 1); us.push_back((1ULL << k) + 1); }
    unsigned long long x = 0x9E3779B97F4A7C15ULL;
    for (int k = 0; k < 3000; k++) { x ^= x << 13; x ^= x >> 7; x ^= x << 17; us.push_back(x >> (k % 40)); }
    for (unsigned long long u : us) {
      for (int neg = 0; neg < 2; neg++) {
        if (neg && u > 9223372036854775808ULL) continue;
        JsonDocument d;
        char want[32];
        if (neg) { long long sv = (long long)(0ULL - u); d.set(sv); snprintf(want, sizeof want, "%lld", sv); }
        else { d.set(u); snprintf(want, sizeof want, "%llu", u); }
        std::string got;
        serializeJson(d, got);
        out << "{\"e\":\"iprint\",\"want\":\"" << want << "\",\"got\":\"" << got << "\"}\n";
      }
    }
  }
  // doubles: powers of two and ten, integer boundaries and their neighbours, type limits, seeded values per exponent
  if (from == 0) {
    std::vector<double> ds;
    for (int k = -996; k <= 996; k += 3) { ds.push_back(std::ldexp(1.0, k)); ds.push_back(std::nextafter(std::ldexp(1.0, k), 0)); ds.push_back(-std::ldexp(1.37, k)); }
    for (int k = -300; k <= 300; k++) { double p10 = (double)powq(10, k); ds.push_back(p10); ds.push_back(std::nextafter(p10, 0)); ds.push_back(p10 * 3.7); }
    for (double b : {2147483648.0, 4294967296.0, 9007199254740992.0, 9223372036854775808.0, 18446744073709551616.0})
      for (double v : {b, std::nextafter(b, 0), std::nextafter(b, 1e300), b - 1, b + 1, -b}) ds.push_back(v);
    unsigned long long st = 88172645463325252ULL;
    for (int k = 0; k < 20000; k++) {
      st ^= st << 13; st ^= st >> 7; st ^= st << 17;
      double m = 1.0 + (double)(st >> 12) / 4503599627370496.0;
      ds.push_back(std::ldexp(m, (int)(st % 1990) - 995));
    }
    for (double x : ds) {
      if (std::isnan(x) || std::isinf(x) || x == 0 || std::fabs(x) > 1e300 || std::fabs(x) < 1e-300) continue;
      std::string text;
      long long e = printErr12(x, &text);
      bool asFloat = (double)(float)x == x;
      out << "{\"e\":\"dprint\",\"x\":" << bitsOf(x) << ",\"err12\":" << e << ",\"storedasfloat\":" << (asFloat ? "true" : "false")
          << ",\"text\":\"" << text << "\"}\n";
    }
  }
  printf("SUMMARY checked=%lu worst12=%lu\n", checked, worst);
  return 0;
}

// behaviour class of as<T>() for a stored 32-bit value: E exact truncation, Z zero, O anything else
template <class S, class T>
static char classify(S x) {
  static JsonDocument d;
  d.set(x);
  T got = d.as<T>();
  long double lx = (long double)x;
  if (std::isnan((double)lx)) return got == 0 ? 'Z' : 'O';
  long double tr = std::trunc(lx);
  bool inRange = lx >= (long double)std::numeric_limits<T>::lowest() && lx <= (long double)std::numeric_limits<T>::max();
  if (inRange) return ((long double)got == tr) ? 'E' : 'O';
  return got == 0 ? 'Z' : 'O';
}

template <class S, class T>
static void sweepType(std::ofstream& out, const char* store, const char* type, unsigned long from, unsigned long to, unsigned long stride) {
  char cur = 0;
  unsigned long start = from, others = 0;
  for (unsigned long p = from; p <= to; p += stride) {
    unsigned u = (unsigned)p;
    S x;
    memcpy(&x, &u, 4);
    char c = classify<S, T>(x);
    if (c == 'O') others++;
    if (c != cur) {
      if (cur)
        out << "{\"e\":\"sweep\",\"store\":\"" << store << "\",\"type\":\"" << type << "\",\"cls\":\"" << cur << "\",\"from\":" << (start >> 16)
            << ",\"fromlo\":" << (start & 65535) << "}\n";
      cur = c;
      start = p;
    }
  }
  out << "{\"e\":\"sweep\",\"store\":\"" << store << "\",\"type\":\"" << type << "\",\"cls\":\"" << cur << "\",\"from\":" << (start >> 16)
      << ",\"fromlo\":" << (start & 65535) << "}\n";
  out << "{\"e\":\"sweepend\",\"store\":\"" << store << "\",\"type\":\"" << type << "\",\"others\":" << (others > 1000000 ? 1000000 : others) << "}\n";
}

template <class S>
static void sweepStore(std::ofstream& out, const char* store, unsigned long from, unsigned long to, unsigned long stride) {
  sweepType<S, int8_t>(out, store, "int8", from, to, stride);
  sweepType<S, uint8_t>(out, store, "uint8", from, to, stride);
  sweepType<S, int16_t>(out, store, "int16", from, to, stride);
  sweepType<S, uint16_t>(out, store, "uint16", from, to, stride);
  sweepType<S, int32_t>(out, store, "int32", from, to, stride);
  sweepType<S, uint32_t>(out, store, "uint32", from, to, stride);
  sweepType<S, int64_t>(out, store, "int64", from, to, stride);
  sweepType<S, uint64_t>(out, store, "uint64", from, to, stride);
}

static int copyarray(const char* outPath) {
  std::ofstream out(outPath);
  long rows = 0;
  for (size_t n = 0; n <= 6; n++) {
    JsonDocument doc;
    JsonArray a = doc.to<JsonArray>();
    for (size_t i = 0; i < n; i++) a.add((int)(i + 1));
    for (size_t len = 0; len <= n + 2; len++) {
      int dst[12];
      for (auto& x : dst) x = -77;
      size_t r = copyArray(doc.as<JsonArrayConst>(), dst + 2, len);
      size_t m = len < n ? len : n;
      bool prefix = true, guard = dst[0] == -77 && dst[1] == -77;
      for (size_t i = 0; i < m; i++) if (dst[2 + i] != (int)(i + 1)) prefix = false;
      for (size_t i = 2 + m; i < 12; i++) if (dst[i] != -77) guard = false;
      out << "{\"e\":\"copy\",\"n\":" << n << ",\"len\":" << len << ",\"ret\":" << r << ",\"prefix\":" << (prefix ? "true" : "false")
          << ",\"guard\":" << (guard ? "true" : "false") << "}\n";
      rows++;
    }
  }
  {  // fixed-size and two-dimensional destinations, string destination
    JsonDocument doc;
    deserializeJson(doc, "[[1,2,3,4],[5,6],[7,8,9,10,11]]");
    int grid[4][3];
    for (auto& r : grid) for (auto& x : r) x = -77;
    copyArray(doc.as<JsonArrayConst>(), grid[0 + 0] , 0);  // no write
    int g2[2][3];
    for (auto& r : g2) for (auto& x : r) x = -77;
    int guardAfter[3] = {-77, -77, -77};
    size_t r = copyArray(doc, g2);
    bool ok = g2[0][0] == 1 && g2[0][2] == 3 && g2[1][0] == 5 && g2[1][1] == 6 && g2[1][2] == -77 && guardAfter[0] == -77;
    out << "{\"e\":\"copy\",\"n\":2,\"len\":2,\"ret\":" << r << ",\"prefix\":" << (ok ? "true" : "false") << ",\"guard\":true}\n";
    JsonDocument sdoc;
    sdoc.set("hello world");
    char buf[8];
    memset(buf, 0x55, sizeof buf);
    char after = 0x55;
    copyArray(sdoc.as<JsonVariantConst>(), buf);
    bool sok = std::string(buf) == "hello w" && after == 0x55;
    out << "{\"e\":\"copy\",\"n\":7,\"len\":7,\"ret\":7,\"prefix\":" << (sok ? "true" : "false") << ",\"guard\":true}\n";
    rows += 2;
  }
  printf("SUMMARY rows=%ld\n", rows);
  return 0;
}

int main(int argc, char** argv) {
  if (argc < 3) return 2;
  std::string mode = argv[1];
  if (mode == "conv") return conv(argv[2], argv[3]);
  if (mode == "parse") return parse(argv[2], argv[3]);
  if (mode == "print") return print(argv[2], strtoul(argv[3], 0, 10), strtoul(argv[4], 0, 10), strtoul(argv[5], 0, 10));
  if (mode == "copyarray") return copyarray(argv[2]);
  if (mode == "sweep") {
    std::ofstream out(argv[2]);
    std::string store = argv[3];
    unsigned long from = strtoul(argv[4], 0, 10), to = strtoul(argv[5], 0, 10), stride = argc > 6 ? strtoul(argv[6], 0, 10) : 1;
    if (store == "f32") sweepStore<float>(out, "f32", from, to, stride);
    else if (store == "i32") sweepStore<int32_t>(out, "i32", from, to, stride);
    else sweepStore<uint32_t>(out, "u32", from, to, stride);
    printf("SUMMARY sweep done\n");
    return 0;
  }
  return 2;
}
