// S->I conformance for the deserializers: every test case computed by TLC from
// spec/JsonReader.tla or spec/MsgPack.tla is given to the real deserializer through EVERY input kind
// and the result code, the document and the number of bytes taken from the input are compared.
//
// case: {"fmt":"json"|"msgpack", "inp":[bytes], "lim":n, "f":<filter node>, "o":{comments,nan,inf,unicode},
//        "code":..., "v":<byte-level node>, "read":n, "weird":bool}
// usage: reader_replay <cases.ndjson> <seed> [--faults <events.ndjson> [maxk]]
#include <cstdio>
#include <fstream>
#include <iostream>
#include <memory>
#include <sstream>
#include <string_view>
#include <signal.h>
#include <unistd.h>

#include "common/verif_allocator.hpp"
#include "common/bytevalue.hpp"
#include "common/inspector.hpp"

using namespace ArduinoJson;

static volatile long g_line = -1;
static const char* g_kind = "";
static void onCrash(const char* what) {
  char buf[160];
  int n = snprintf(buf, sizeof buf, "\nCRASH idx=%ld kind=%s what=%s\n", g_line, g_kind, what);
  if (write(1, buf, (size_t)n)) {}
}
extern "C" void __asan_on_error() { onCrash("asan"); }
static void onSignal(int sig) { onCrash(sig == SIGSEGV ? "sigsegv" : sig == SIGALRM ? "timeout" : "sigabrt"); _exit(3); }

static const char* errName(DeserializationError e) {
  switch (e.code()) {
    case DeserializationError::Ok: return "Ok";
    case DeserializationError::EmptyInput: return "EmptyInput";
    case DeserializationError::IncompleteInput: return "IncompleteInput";
    case DeserializationError::InvalidInput: return "InvalidInput";
    case DeserializationError::NoMemory: return "NoMemory";
    case DeserializationError::TooDeep: return "TooDeep";
  }
  return "?";
}

// custom reader: counts what is asked for and what is delivered, delivers in chunks
struct CountingReader {
  const std::string* data;
  size_t pos = 0, chunk;
  long reads = 0;
  long lowWater = 0;  // lowest stack address seen in read() (recursion depth probe)
  CountingReader(const std::string& d, size_t chunkSize) : data(&d), chunk(chunkSize) {}
  int read() {
    char probe;
    long here = (long)&probe;
    if (lowWater == 0 || here < lowWater) lowWater = here;
    reads++;
    if (pos >= data->size()) return -1;
    return (unsigned char)(*data)[pos++];
  }
  size_t readBytes(char* buf, size_t n) {
    reads++;
    size_t k = 0;
    while (k < n && k < chunk && pos < data->size()) buf[k++] = (*data)[pos++];
    // a short read is legal for a stream: deliver the rest on demand
    while (k < n && pos < data->size()) buf[k++] = (*data)[pos++];
    return k;
  }
};

struct Outcome {
  std::string code;
  long consumed = -1;  // bytes taken from a counting source, -1 when the kind cannot tell
  std::string diff;    // value comparison
  std::string after;   // post-conditions on the document (C03)
  long stackDepth = 0;
  size_t requested = 0, peak = 0;
};

enum Fmt { JSON, MSGPACK };

// the two options may be given in either order: (Filter, NestingLimit) or (NestingLimit, Filter)
static bool g_limitFirst = false;

template <class Input>
static DeserializationError call(Fmt fmt, JsonDocument& doc, Input&& in, bool useFilter, JsonDocument& filter,
                                 int lim) {
  using namespace DeserializationOption;
  if (fmt == JSON) {
    if (useFilter && g_limitFirst) return deserializeJson(doc, in, NestingLimit((uint8_t)lim), Filter(filter.as<JsonVariantConst>()));
    if (useFilter) return deserializeJson(doc, in, Filter(filter.as<JsonVariantConst>()), NestingLimit((uint8_t)lim));
    return deserializeJson(doc, in, NestingLimit((uint8_t)lim));
  }
  if (useFilter && g_limitFirst) return deserializeMsgPack(doc, in, NestingLimit((uint8_t)lim), Filter(filter.as<JsonVariantConst>()));
  if (useFilter) return deserializeMsgPack(doc, in, Filter(filter.as<JsonVariantConst>()), NestingLimit((uint8_t)lim));
  return deserializeMsgPack(doc, in, NestingLimit((uint8_t)lim));
}
template <class Ptr, class Size>
static DeserializationError callSized(Fmt fmt, JsonDocument& doc, Ptr p, Size n, bool useFilter, JsonDocument& filter,
                                      int lim) {
  using namespace DeserializationOption;
  if (fmt == JSON) {
    if (useFilter && g_limitFirst) return deserializeJson(doc, p, n, NestingLimit((uint8_t)lim), Filter(filter.as<JsonVariantConst>()));
    if (useFilter) return deserializeJson(doc, p, n, Filter(filter.as<JsonVariantConst>()), NestingLimit((uint8_t)lim));
    return deserializeJson(doc, p, n, NestingLimit((uint8_t)lim));
  }
  if (useFilter && g_limitFirst) return deserializeMsgPack(doc, p, n, NestingLimit((uint8_t)lim), Filter(filter.as<JsonVariantConst>()));
  if (useFilter) return deserializeMsgPack(doc, p, n, Filter(filter.as<JsonVariantConst>()), NestingLimit((uint8_t)lim));
  return deserializeMsgPack(doc, p, n, NestingLimit((uint8_t)lim));
}

static const char* KINDS[] = {"cstr", "sized", "std::string", "istream", "reader1", "reader7", "char*", "variant",
                              "string_view", "uchar-sized",
#ifdef ARDUINO
                              "ArduinoString", "ArduinoStream", "flash", "flash-sized",
#endif
                              "sized(int)", "vector<char>", "istream-chunked",
};
static const int NKINDS = sizeof KINDS / sizeof *KINDS;
static const int K_CHUNKED = NKINDS - 1;   // std::istream delivering a few bytes per refill
static const int K_VECTOR = NKINDS - 2;    // any container with const_iterator (IteratorReader)
static const int K_INTSIZE = NKINDS - 3;   // pointer + size given as int / unsigned short / unsigned char

// a std::istream whose buffer hands the input out a few bytes at a time (a socket, a pipe, a hand-written
// streambuf): in_avail() is small, multi-byte reads straddle refills
struct ChunkBuf : std::streambuf {
  const std::string* d;
  size_t next = 0, chunk;
  std::vector<char> buf;
  ChunkBuf(const std::string& s, size_t c) : d(&s), chunk(c), buf(c) { setg(buf.data(), buf.data(), buf.data()); }
  int_type underflow() override {
    if (gptr() < egptr()) return traits_type::to_int_type(*gptr());
    if (next >= d->size()) return traits_type::eof();
    size_t n = d->size() - next < chunk ? d->size() - next : chunk;
    memcpy(buf.data(), d->data() + next, n);
    next += n;
    setg(buf.data(), buf.data(), buf.data() + n);
    return traits_type::to_int_type(*gptr());
  }
  size_t consumed() const { return next - (size_t)(egptr() - gptr()); }
};

#ifdef ARDUINO
class FakeStream : public Stream {
 public:
  explicit FakeStream(const std::string& s) : s_(s) {}
  int read() override { return pos_ < s_.size() ? (unsigned char)s_[pos_++] : -1; }
  size_t readBytes(char* b, size_t n) override {
    size_t k = 0;
    while (k < n && pos_ < s_.size()) b[k++] = s_[pos_++];
    return k;
  }
  size_t pos_ = 0;
 private:
  std::string s_;
};
#endif

// runs one case through one input kind on a fresh document that already holds something
static Outcome runKind(Fmt fmt, int kind, const std::string& bytes, bool useFilter, const mj::Value& fnode, int lim,
                       const mj::Value* expect, bool nanOn, bool infOn, bool weird, VerifAllocator& alloc,
                       unsigned prestate) {
  Outcome out;
  g_kind = KINDS[kind];
  JsonDocument filter;
  if (useFilter) bv::buildFilter(fnode, filter.to<JsonVariant>());
  JsonDocument doc(&alloc);
  // C01: whatever the destination held before is entirely replaced
  if (prestate == 1) doc["old"][2] = std::string("previous content");
  else if (prestate == 2) { doc.add(1099511627776LL); doc.add(std::string("x")); }
  alloc.resetStats();
  if (prestate == 3) {
    // destination = a nested value of another document (only for the plain string kinds)
    JsonDocument outer(&alloc);
    outer["keep"] = 1;
    outer["dst"][1] = std::string("old");
    DeserializationError e2;
    using namespace DeserializationOption;
    if (fmt == JSON) e2 = useFilter ? deserializeJson(outer["dst"][1], bytes, Filter(filter.as<JsonVariantConst>()), NestingLimit((uint8_t)lim))
                                    : deserializeJson(outer["dst"][1], bytes, NestingLimit((uint8_t)lim));
    else e2 = useFilter ? deserializeMsgPack(outer["dst"][1], bytes, Filter(filter.as<JsonVariantConst>()), NestingLimit((uint8_t)lim))
                        : deserializeMsgPack(outer["dst"][1], bytes, NestingLimit((uint8_t)lim));
    out.code = errName(e2);
    if (expect && out.code == "Ok") out.diff = bv::compare(outer["dst"][1], *expect, nanOn, infOn, weird);
    if (outer["keep"] != 1 || !outer["dst"][0].isNull() || outer["dst"].size() != 2 || outer.size() != 2)
      out.after = "deserializing into a nested value changed its surroundings";
    auto snap = ArduinoJsonVerifInspector::snapshot(outer);
    if (!snap.problems.empty()) out.after = "inspector: " + snap.problems[0];
    return out;
  }
  DeserializationError err;
  bool zeroTerminated = kind == 0 || kind == 6 || kind == 7;
#ifdef ARDUINO
  zeroTerminated = zeroTerminated || kind == 12;
  // an Arduino String is read with its length (a bounded input), but the test double can only be
  // built from a C string: binary input goes through it when it contains no NUL byte
  if (kind == 10 && fmt == MSGPACK && bytes.find('\0') != std::string::npos) { out.code = "skip"; return out; }
#endif
  if (fmt == MSGPACK && zeroTerminated) { out.code = "skip"; return out; }
  if (kind == K_VECTOR) {
    if (bytes.size() % 2) {
      std::vector<char> v(bytes.begin(), bytes.end());
      v.shrink_to_fit();
      err = call(fmt, doc, v, useFilter, filter, lim);
    } else {
      std::vector<unsigned char> v(bytes.begin(), bytes.end());
      v.shrink_to_fit();
      err = call(fmt, doc, v, useFilter, filter, lim);
    }
  }
  if (kind == K_INTSIZE) {
    std::unique_ptr<char[]> buf(new char[bytes.size() ? bytes.size() : 1]);
    memcpy(buf.get(), bytes.data(), bytes.size());
    const char* p = buf.get();
    if (bytes.size() < 256 && bytes.size() % 3 == 0) err = callSized(fmt, doc, p, (unsigned char)bytes.size(), useFilter, filter, lim);
    else if (bytes.size() < 65536 && bytes.size() % 3 == 1) err = callSized(fmt, doc, p, (unsigned short)bytes.size(), useFilter, filter, lim);
    else if (bytes.size() < 2000000000) err = callSized(fmt, doc, p, (int)bytes.size(), useFilter, filter, lim);
    else err = callSized(fmt, doc, p, bytes.size(), useFilter, filter, lim);
  }
  if (kind == K_CHUNKED) {
    static const size_t sizes[] = {1, 3, 7, 2};
    ChunkBuf cb(bytes, sizes[bytes.size() % 4]);
    std::istream is(&cb);
    err = call(fmt, doc, is, useFilter, filter, lim);
    out.consumed = (long)cb.consumed();
  }
  switch (kind) {
    case 0: {  // zero-terminated: exact-size heap copy up to the first NUL
      size_t n = bytes.find('\0') == std::string::npos ? bytes.size() : bytes.find('\0');
      std::unique_ptr<char[]> buf(new char[n + 1]);
      memcpy(buf.get(), bytes.data(), n);
      buf[n] = 0;
      const char* p = buf.get();
      err = call(fmt, doc, p, useFilter, filter, lim);
      break;
    }
    case 1: {  // pointer + size: exact-size heap block, no terminator
      std::unique_ptr<char[]> buf(new char[bytes.size() ? bytes.size() : 1]);
      memcpy(buf.get(), bytes.data(), bytes.size());
      const char* p = buf.get();
      err = callSized(fmt, doc, p, bytes.size(), useFilter, filter, lim);
      break;
    }
    case 2: err = call(fmt, doc, bytes, useFilter, filter, lim); break;
    case 3: {
      std::istringstream is(bytes);
      err = call(fmt, doc, is, useFilter, filter, lim);
      is.clear();
      std::string rest((std::istreambuf_iterator<char>(is)), std::istreambuf_iterator<char>());
      out.consumed = (long)(bytes.size() - rest.size());
      break;
    }
    case 4:
    case 5: {
      CountingReader r(bytes, kind == 4 ? 1 : 7);
      char probe;
      err = call(fmt, doc, r, useFilter, filter, lim);
      out.consumed = (long)r.pos;
      out.stackDepth = r.lowWater ? (long)&probe - r.lowWater : 0;
      break;
    }
    case 6: {
      size_t n = bytes.find('\0') == std::string::npos ? bytes.size() : bytes.find('\0');
      std::unique_ptr<char[]> buf(new char[n + 1]);
      memcpy(buf.get(), bytes.data(), n);
      buf[n] = 0;
      char* p = buf.get();
      err = call(fmt, doc, p, useFilter, filter, lim);
      break;
    }
    case 7: {  // a variant holding the text
      if (bytes.size() > ArduinoJson::detail::StringNode::maxLength) { out.code = "skip"; return out; }
      JsonDocument src;
      src["in"] = bytes;  // copied with its length; read back as a C string
      JsonVariantConst v = src["in"];
      err = call(fmt, doc, v, useFilter, filter, lim);
      break;
    }
    case 8: {
      std::unique_ptr<char[]> buf(new char[bytes.size() ? bytes.size() : 1]);
      memcpy(buf.get(), bytes.data(), bytes.size());
      std::string_view sv(buf.get(), bytes.size());
      err = call(fmt, doc, sv, useFilter, filter, lim);
      break;
    }
    case 9: {
      std::unique_ptr<unsigned char[]> buf(new unsigned char[bytes.size() ? bytes.size() : 1]);
      memcpy(buf.get(), bytes.data(), bytes.size());
      const unsigned char* p = buf.get();
      err = callSized(fmt, doc, p, bytes.size(), useFilter, filter, lim);
      break;
    }
#ifdef ARDUINO
    case 10: {
      ::String s(bytes.c_str());
      err = call(fmt, doc, s, useFilter, filter, lim);
      break;
    }
    case 11: {
      FakeStream st(bytes);
      err = call(fmt, doc, st, useFilter, filter, lim);
      out.consumed = (long)st.pos_;
      break;
    }
    case 12: {
      static std::string keep;
      keep = bytes;
      keep.push_back('\0');
      err = call(fmt, doc, reinterpret_cast<const __FlashStringHelper*>(convertPtrToFlash(keep.c_str())), useFilter,
                 filter, lim);
      break;
    }
    case 13: {
      static std::string keep;
      keep = bytes;
      err = callSized(fmt, doc, reinterpret_cast<const __FlashStringHelper*>(convertPtrToFlash(keep.data())),
                      bytes.size(), useFilter, filter, lim);
      break;
    }
#endif
  }
  out.code = errName(err);
  size_t requested = alloc.requestedBytes();
  out.requested = requested;
  out.peak = alloc.peakBytes();
  if (expect && out.code == "Ok") out.diff = bv::compare(doc.as<JsonVariantConst>(), *expect, nanOn, infOn, weird);
  // C03: whatever the outcome, the document is a well-formed value that can be traversed,
  // serialized, cleared and reused
  {
    auto snap = ArduinoJsonVerifInspector::snapshot(doc);
    if (!snap.problems.empty()) out.after = "inspector: " + snap.problems[0];
    std::string s1, s2;
    size_t n1 = serializeJson(doc, s1);
    size_t n2 = serializeMsgPack(doc, s2);
    if (n1 != s1.size() || n1 != measureJson(doc) || n2 != s2.size() || n2 != measureMsgPack(doc))
      out.after = "serialize/measure disagree after deserialization";
    if (out.code == "Ok" && doc.overflowed()) out.after = "Ok but overflowed()";
    if (out.code == "NoMemory" && !doc.overflowed() && bytes.size() < 70000) {
      // NoMemory without overflowed() is legitimate only when a declared length exceeds the string limit
    }
    size_t nest = doc.nesting();
    if (out.code == "Ok" && nest > (size_t)lim) out.after = "Ok but nesting() exceeds the limit";
    // C06: memory requested while deserializing is bounded by one maximum-size string plus a
    // linear function of the bytes supplied
    size_t maxStr = ArduinoJson::detail::StringNode::maxLength;
    if (maxStr > VerifAllocator::maxBlock) maxStr = VerifAllocator::maxBlock;  // larger blocks are refused anyway
    size_t bound = ArduinoJson::detail::sizeofString(maxStr) + 40 * (bytes.size() + 1) +
                   4 * ARDUINOJSON_POOL_CAPACITY * ArduinoJsonVerifInspector::slotSize() + 4096;
    if (requested > bound)
      out.after = "requested " + std::to_string(requested) + " bytes for an input of " + std::to_string(bytes.size());
    doc.clear();
    if (!doc.isNull() || doc.overflowed()) out.after = "clear() did not reset the document";
    doc["k"].add(std::string("reuse"));
    std::string s3;
    serializeJson(doc, s3);
    if (s3 != "{\"k\":[\"reuse\"]}") out.after = "document not reusable after clear(): " + s3;
  }
  return out;
}

// ---------------------------------------------------------------------------------------------
// C05 for the deserializers: the case is run fault-free to count its N failable allocator calls,
// then with a failure at call k and with failures from call k on, for every k.  One ndjson event
// per faulted run, judged by spec/FaultTrace.tla (event "rfault").
static DeserializationError runPlain(Fmt fmt, int kind, JsonDocument& doc, const std::string& bytes, bool useFilter,
                                     JsonDocument& filter, int lim) {
  if (kind == 3) {
    std::istringstream is(bytes);
    return call(fmt, doc, is, useFilter, filter, lim);
  }
  if (kind == 4) {
    CountingReader r(bytes, 3);
    return call(fmt, doc, r, useFilter, filter, lim);
  }
  std::unique_ptr<char[]> buf(new char[bytes.size() ? bytes.size() : 1]);
  memcpy(buf.get(), bytes.data(), bytes.size());
  const char* p = buf.get();
  return callSized(fmt, doc, p, bytes.size(), useFilter, filter, lim);
}

static void prefill(JsonDocument& doc, unsigned prestate) {
  if (prestate == 1) doc["old"][2] = std::string("previous content");
  else if (prestate == 2) { doc.add(1099511627776LL); doc.add(std::string("x")); }
}

static void faultCase(Fmt fmt, const mj::Value& c, const std::string& bytes, long idx, std::ofstream& out, long maxk,
                      long& events, long& fired) {
  const mj::Value& f = c.at("f");
  const mj::Value& o = c.at("o");
  bool useFilter = f.str("t") != "T";
  int lim = (int)c.num("lim");
  const std::string& expCode = c.str("code");
  bool weird = c.has("weird") && c.boolean("weird");
  JsonDocument filter;
  if (useFilter) bv::buildFilter(f, filter.to<JsonVariant>());
  static const int kinds[] = {1, 3, 4};
  int kind = kinds[idx % 3];
  unsigned pre = (unsigned)((idx / 3) % 3);
  g_kind = KINDS[kind];
  long N = 0;
  {
    VerifAllocator alloc(1);
    JsonDocument doc(&alloc);
    prefill(doc, pre);
    VerifAllocator::resetGlobalCount();
    runPlain(fmt, kind, doc, bytes, useFilter, filter, lim);
    N = VerifAllocator::global().failable;
  }
  for (int mode = 0; mode < 2; mode++) {
    for (long k = 1; k <= N && k <= maxk; k++) {
      if (mode == 1 && k == N) continue;
      VerifAllocator alloc(1);
      mj::Value ev = mj::Value::mkObj();
      ev.set("e", mj::Value::mkStr("rfault"));
      ev.set("fmt", mj::Value::mkStr(fmt == JSON ? "json" : "msgpack"));
      ev.set("idx", mj::Value::mkInt(idx));
      ev.set("kind", mj::Value::mkStr(KINDS[kind]));
      ev.set("mode", mj::Value::mkStr(mode == 0 ? "single" : "from"));
      ev.set("k", mj::Value::mkInt(k));
      ev.set("n", mj::Value::mkInt(N));
      ev.set("expcode", mj::Value::mkStr(expCode));
      ev.set("inp", c.at("inp"));
      ev.set("lim", mj::Value::mkInt(lim));
      ev.set("f", f);
      {
        JsonDocument doc(&alloc);
        prefill(doc, pre);
        if (mode == 0) VerifAllocator::armSingle(k); else VerifAllocator::armFrom(k);
        DeserializationError err = runPlain(fmt, kind, doc, bytes, useFilter, filter, lim);
        long nf = VerifAllocator::global().fired;
        VerifAllocator::disarm();
        std::string code = errName(err);
        ev.set("fired", mj::Value::mkBool(nf > 0));
        ev.set("code", mj::Value::mkStr(code));
        ev.set("ovf", mj::Value::mkBool(doc.overflowed()));
        std::string diff;
        if (code == "Ok" && expCode == "Ok")
          diff = bv::compare(doc.as<JsonVariantConst>(), c.at("v"), o.boolean("nan"), o.boolean("inf"), weird);
        ev.set("equal", mj::Value::mkBool(diff.empty()));
        // the document is a well-formed value that can be traversed and serialized
        mj::Value pr = mj::Value::mkArr();
        auto snap = ArduinoJsonVerifInspector::snapshot(doc);
        for (auto& p : snap.problems) pr.a.push_back(mj::Value::mkStr(p));
        for (auto& st : snap.strings)
          if (st.refs == 0) pr.a.push_back(mj::Value::mkStr("string node with zero references"));
        std::string s1, s2;
        size_t n1 = serializeJson(doc, s1), n2 = serializeMsgPack(doc, s2);
        if (n1 != s1.size() || n1 != measureJson(doc) || n2 != s2.size() || n2 != measureMsgPack(doc))
          pr.a.push_back(mj::Value::mkStr("serialize/measure disagree"));
        ev.set("insp", pr);
        doc.clear();
        ev.set("live", mj::Value::mkInt((long long)alloc.liveBlocks()));
        bool works = doc.isNull() && !doc.overflowed();
        doc["k"][1] = std::string("v");
        doc["n"] = 1099511627776LL;
        std::string again;
        serializeJson(doc, again);
        works = works && again == "{\"k\":[null,\"v\"],\"n\":1099511627776}" && !doc.overflowed();
        ev.set("works", mj::Value::mkBool(works));
        if (nf > 0) fired++;
      }
      ev.set("ledger", mj::Value::mkBool(alloc.liveBlocks() == 0 && alloc.errors().empty()));
      out << mj::dump(ev) << "\n";
      events++;
    }
  }
}

int main(int argc, char** argv) {
  if (argc < 3) { fprintf(stderr, "usage: reader_replay cases seed\n"); return 2; }
  signal(SIGSEGV, onSignal);
  signal(SIGABRT, onSignal);
  signal(SIGALRM, onSignal);
  std::ifstream in(argv[1]);
  unsigned long long seed = strtoull(argv[2], nullptr, 10);
  bool faults = argc > 4 && std::string(argv[3]) == "--faults";
  std::ofstream faultOut;
  if (faults) faultOut.open(argv[4]);
  long maxk = argc > 5 ? atol(argv[5]) : 60;
  long fevents = 0, ffired = 0;
  std::string line;
  long idx = 0, ran = 0, skipped = 0, bad = 0, evals = 0;
  long maxStack[4] = {0, 0, 0, 0};
  while (std::getline(in, line)) {
    if (line.empty()) continue;
    g_line = idx;
    alarm(60);
    mj::Value c = mj::parse(line);
    const mj::Value& o = c.at("o");
    bool match = o.boolean("comments") == (ARDUINOJSON_ENABLE_COMMENTS != 0) &&
                 o.boolean("nan") == (ARDUINOJSON_ENABLE_NAN != 0) &&
                 o.boolean("inf") == (ARDUINOJSON_ENABLE_INFINITY != 0) &&
                 o.boolean("unicode") == (ARDUINOJSON_DECODE_UNICODE != 0) &&
                 (!o.has("maxstr") || (size_t)o.num("maxstr") == (size_t)ArduinoJson::detail::StringNode::maxLength);
    if (!match) { skipped++; idx++; continue; }
    Fmt fmt = c.has("fmt") && c.str("fmt") == "msgpack" ? MSGPACK : JSON;
    std::string bytes;
    for (auto& x : c.at("inp").a) bytes += char((unsigned char)x.i);
    int lim = (int)c.num("lim");
    g_limitFirst = idx % 2 == 1;
    if (faults) {
      if (!c.has("session")) { faultCase(fmt, c, bytes, idx, faultOut, maxk, fevents, ffired); ran++; }
      idx++;
      continue;
    }
    if (c.has("session")) {
      // C16: successive calls on one stream return the documents one after the other
      std::string problem;
      const auto& calls = c.at("session").a;
      bool sFilter = c.has("f") && c.at("f").str("t") != "T";
      JsonDocument nofilter;
      if (sFilter) bv::buildFilter(c.at("f"), nofilter.to<JsonVariant>());
      for (int kind = 0; kind < 4 && problem.empty(); kind++) {
        std::istringstream is(bytes);
        CountingReader r1(bytes, 1), r7(bytes, 7);
        ChunkBuf cb(bytes, 1 + (size_t)(idx % 5));
        std::istream cs(&cb);
        long before = 0;
        for (size_t k = 0; k < calls.size() && problem.empty(); k++) {
          JsonDocument doc;
          DeserializationError e;
          long now;
          if (kind == 0) {
            e = call(fmt, doc, is, sFilter, nofilter, lim);
            bool atEnd = is.eof();
            is.clear();
            now = atEnd ? (long)bytes.size() : (long)is.tellg();
          } else if (kind == 1) { e = call(fmt, doc, r1, sFilter, nofilter, lim); now = (long)r1.pos; }
          else if (kind == 2) { e = call(fmt, doc, r7, sFilter, nofilter, lim); now = (long)r7.pos; }
          else { e = call(fmt, doc, cs, sFilter, nofilter, lim); cs.clear(); now = (long)cb.consumed(); }
          evals++;
          std::string where = " [session call " + std::to_string(k) + " kind=" + (kind == 0 ? "istream" : kind == 1 ? "reader1" : kind == 2 ? "reader7" : "istream-chunked") + "]";
          if (calls[k].str("code") != errName(e)) problem = "code expected=" + calls[k].str("code") + " got=" + errName(e) + where;
          else if (calls[k].str("code") == "Ok") {
            // "bulk" documents (containers with more than 65535 elements, too large for TLC's sequence operators)
            // come from the encoder that wrote them: element count and bytes consumed are compared
            const mj::Value& want = calls[k].at("v");
            std::string d;
            if (want.str("t") == "bulk") {
              if ((long long)doc.size() != want.num("n")) d = "container size " + std::to_string(doc.size()) + " expected " + std::to_string(want.num("n"));
            } else
            d = bv::compare(doc.as<JsonVariantConst>(), want, o.boolean("nan"), o.boolean("inf"), false);
            if (!d.empty()) problem = "value " + d + where;
            else if (now - before != calls[k].num("read"))
              problem = "consumed expected=" + std::to_string(calls[k].num("read")) + " got=" + std::to_string(now - before) + where;
          }
          before = now;
        }
      }
      if (problem.empty()) ran++;
      else { bad++; if (bad <= 20) printf("MISMATCH idx=%ld %s\n", idx, problem.c_str()); }
      idx++;
      continue;
    }
    const mj::Value& f = c.at("f");
    bool trueFilter = f.str("t") == "T";
    const std::string& expCode = c.str("code");
    bool weird = c.has("weird") && c.boolean("weird");
    long expRead = c.num("read");
    std::string problem;
    std::string firstCode;
    for (int kind = 0; kind < NKINDS && problem.empty(); kind++) {
      // the filter "true" is exercised both as "no filter" and as Filter(true)
      for (int variant = 0; variant < (trueFilter ? 2 : 1) && problem.empty(); variant++) {
        bool useFilter = !trueFilter || variant == 1;
        if (trueFilter && variant == 1 && (kind % 3) != (int)(idx % 3)) continue;  // thin out
        VerifAllocator alloc(1);
        unsigned pre = (unsigned)((idx + kind) % 3);
        if (kind == 2 && idx % 2 == 0) pre = 3;
        Outcome r = runKind(fmt, kind, bytes, useFilter, f, lim, expCode == "Ok" ? &c.at("v") : nullptr,
                            o.boolean("nan"), o.boolean("inf"), weird, alloc, pre);
        if (kind == 4 && variant == 0 && c.has("tag") && (c.str("tag").compare(0, 5, "depth") == 0 || c.str("tag").compare(0, 4, "flat") == 0))
          printf("STACK idx=%ld bytes=%ld\n", idx, r.stackDepth);
        if (r.code == "skip") continue;
        evals++;
        std::string where = std::string(" [kind=") + KINDS[kind] + (useFilter ? ",filter" : "") + "]";
        // "slotlimit" inputs approach the number of slots the build can address: running out of slots (NoMemory)
        // is as legitimate as the specification's outcome; the post-conditions are what these inputs are for
        bool nomemOk = c.has("tag") && c.str("tag") == "slotlimit" && r.code == "NoMemory";
        if (r.code != expCode && !nomemOk) problem = "code expected=" + expCode + " got=" + r.code + where;
        else if (!r.diff.empty()) problem = "value " + r.diff + where;
        else if (!r.after.empty()) problem = "post-condition: " + r.after + where;
        else if (r.consumed >= 0 && expCode == "Ok" && r.code == "Ok" && r.consumed != expRead)
          problem = "consumed expected=" + std::to_string(expRead) + " got=" + std::to_string(r.consumed) + where;
        else if (r.consumed > (long)bytes.size()) problem = "read beyond the end of the input" + where;
        if (alloc.liveBlocks() != 0 || !alloc.errors().empty()) problem = "allocator ledger not empty after destruction" + where;
        // C11: for any input whatsoever filtering never requests more memory than the unfiltered run
        if (!trueFilter && problem.empty() && (kind == 1 || kind == 4)) {
          VerifAllocator alloc2(2);
          Outcome u = runKind(fmt, kind, bytes, false, f, lim, nullptr, o.boolean("nan"), o.boolean("inf"), weird, alloc2,
                              (unsigned)((idx + kind) % 3));
          evals++;
          // (an unfiltered run that stops early is not a yardstick: at a capacity limit - a string longer than the
          //  configured maximum, no slot left - or at a syntax error inside a part the filter discards, which skip
          //  mode does not validate, the filtered run legitimately reads on and allocates for what follows; there
          //  the general bound on the memory requested per input byte applies, checked in runKind)
          if (u.code == "Ok" && (r.requested > u.requested + 64 || r.peak > u.peak + 64))
            problem = "filtered run used more memory than the unfiltered one: requested " + std::to_string(r.requested) +
                      " vs " + std::to_string(u.requested) + ", peak " + std::to_string(r.peak) + " vs " +
                      std::to_string(u.peak) + where;
          if (c.has("ucode") && c.str("ucode") == "Ok" && u.code != "Ok") problem = "unfiltered run not Ok" + where;
        }
        if (r.stackDepth > maxStack[lim < 3 ? lim : 3]) maxStack[lim < 3 ? lim : 3] = r.stackDepth;
      }
    }
    if (problem.empty()) ran++;
    else {
      bad++;
      if (bad <= 20) printf("MISMATCH idx=%ld %s\n", idx, problem.c_str());
    }
    idx++;
  }
  (void)seed;
  if (faults) { printf("SUMMARY cases=%ld events=%ld fired=%ld\n", ran, fevents, ffired); return 0; }
  printf("SUMMARY lines=%ld ok=%ld mismatches=%ld skipped=%ld evals=%ld stack0=%ld stack1=%ld stack2=%ld\n", idx, ran, bad,
         skipped, evals, maxStack[0], maxStack[1], maxStack[2]);
  return bad ? 1 : 0;
}
